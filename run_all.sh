#!/bin/sh
# runs every registered check once (tier from $1, default quick); prints the summary lines
tier=${1:-quick}
cd "$(dirname "$0")"
rc=0
for p in C01 C02 C03 C04 C05 C06 C07 C08 C09 C10 C11 C12 C13 C14 C15 C19 C20; do
  python3 verif.py run $p --tier $tier > work/last_$p.log 2>&1 || rc=1
  grep -E "^(VIOLATION|KNOWN-FINDING|INCONCLUSIVE)" work/last_$p.log | cut -c1-200
  tail -1 work/last_$p.log
done
exit $rc
