#!/bin/sh
# seeded_eval_alt.sh <seed-id> [tier] [checks...] : like seeded_eval.sh, but applies the patch to a scratch
# worktree (/tmp/evalrepo, VERIF_REPO) instead of /repo, so that it can run while /repo is in use.
set -u
id=$1; tier=${2:-quick}; shift; [ $# -gt 0 ] && shift
cd "$(dirname "$0")"
d=seeded/$id
W=${EVALREPO:-/tmp/evalrepo}
[ -d $W ] || git -C /repo worktree add -q --detach $W HEAD
git -C $W checkout -q --detach $(git -C /repo rev-parse HEAD) && git -C $W checkout -- . && git -C $W clean -fdq
git -C $W apply /verif/$d/patch.diff || { echo "patch does not apply"; exit 2; }
checks="$*"
[ -n "$checks" ] || checks=$(python3 -c "import json;m=json.load(open('$d/meta.json'));print(' '.join(m.get('checks',[m['property']])))")
res=0
for c in $checks; do
  VERIF_REPO=$W python3 verif.py run $c --tier $tier > work/seedalt${VERIF_ALT_TAG:-}_${id}_$c.log 2>&1; rc=$?
  echo "== $id / $c (tier $tier): exit $rc"
  grep -E "^(VIOLATION|  obligation|KNOWN-FINDING|INCONCLUSIVE)" work/seedalt${VERIF_ALT_TAG:-}_${id}_$c.log | cut -c1-260 | head -12
  tail -1 work/seedalt${VERIF_ALT_TAG:-}_${id}_$c.log
  [ $rc -eq 1 ] && res=1
done
git -C $W checkout -- . ; git -C $W clean -fdq
[ $res -eq 1 ] && echo "RESULT $id: CAUGHT" || echo "RESULT $id: MISSED"
