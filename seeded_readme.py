#!/usr/bin/env python3
"""seeded_readme.py : folds the per-seed logs of seeded_sweep_alt.sh / seeded_eval_alt.sh (work/sweep_<id>.log,
checks run against a scratch worktree with the patch applied) into each seed's meta.json ("evaluation")
and rewrites seeded/README.md and seeded/SWEEP.md."""
import json, os, re, glob, subprocess, time
ROOT = os.path.dirname(os.path.abspath(__file__))
rows, sweep = [], []
for p in sorted(glob.glob(ROOT + "/seeded/*/meta.json")):
    m = json.load(open(p))
    sid = m["id"]
    logs = [ROOT + "/work/sweep_%s.log" % sid] + sorted(glob.glob(ROOT + "/work/evalalt*_%s.log" % sid))
    logs = [l for l in logs if os.path.exists(l)]
    if logs:
        log = max(logs, key=os.path.getmtime)
        txt = open(log, errors="replace").read()
        ev = {}
        for blk in re.split(r"^== ", txt, flags=re.M)[1:]:
            mm = re.match(r"(\S+) / (\S+) \(tier (\w+)\): exit (\d+)", blk)
            if not mm:
                continue
            c, rc = mm.group(2), int(mm.group(4))
            obls = sorted(set(re.findall(r"^  obligation (\S+)", blk, re.M)))
            summ = [l for l in blk.splitlines() if re.match(r"^C\d+ \w+: ", l)]
            ev[c] = dict(exit=rc, violated_obligations=obls[:8], summary=summ[-1] if summ else "")
        if ev:
            m["evaluation"] = ev
            m["caught"] = any(v["exit"] == 1 for v in ev.values())
            m["evaluated_at"] = time.strftime("%Y-%m-%d %H:%M", time.localtime(os.path.getmtime(log)))
            json.dump(m, open(p, "w"), indent=1)
    ev = m.get("evaluation", {})
    caught = "; ".join("%s: %s" % (c, ", ".join(o.split("/")[-1] for o in v["violated_obligations"][:3])) for c, v in ev.items() if v["exit"] == 1) or "**missed**"
    rows.append("| %s | %s | %s | %s | %s |" % (sid, m["property"], m.get("needs", "").replace("|", "/"), caught, m.get("strengthened", "").replace("|", "/")))
    sweep.append("| %s | %s | %s |" % (sid, "caught" if m.get("caught") else "MISSED", m.get("evaluated_at", "earlier session (seeded_report.py on /repo)")))
head = ["# Seeded changes\n",
        "Each directory holds an independently produced change to yandex/pandora that breaks one property while the project still",
        "compiles and its existing tests pass (`patch.diff`), a demonstration that fails with the change and passes without it (`demo/`),",
        "the author's notes (`notes.md`) and `meta.json` (what was run to confirm it, which checks were run against it and what they reported).",
        "None of these changes is ever committed to /repo; `seeded_eval.sh <id>` / `seeded_report.py` apply one to /repo, run the checks and revert;",
        "`seeded_eval_alt.sh` / `seeded_sweep_alt.sh` do the same against a scratch worktree (VERIF_REPO), so that /repo stays free.\n",
        "| seed | property | what it needs to manifest | caught by (quick tier) | strengthened after first miss |", "|---|---|---|---|---|"]
open(ROOT + "/seeded/README.md", "w").write("\n".join(head + rows) + "\n")
rev = subprocess.run("git -C /repo log --format=%h -1", shell=True, capture_output=True, text=True).stdout.strip()
n = sum(1 for r in sweep if "| caught |" in r)
open(ROOT + "/seeded/SWEEP.md", "w").write("\n".join(
    ["# Last sweep of all seeded changes\n",
     "Every patch applied to a scratch worktree of /repo (HEAD %s at the time of writing), the checks named in its meta.json run in the quick tier." % rev,
     "%d of %d reported by a check (exit 1 with natively reproduced counterexamples).\n" % (n, len(sweep)),
     "| seed | result | evaluated |", "|---|---|---|"] + sweep) + "\n")
print("%d of %d caught" % (n, len(sweep)))
