#!/usr/bin/env python3
"""Driver for the solver-based checks of /verif (see DESIGN.md).

  verif.py run <Cxx> [--tier quick|thorough]     run all obligations of a property
  verif.py replay <file>                          re-run a stored counterexample natively
  verif.py setup                                  build the engine, run the engine selfcheck

Every run regenerates the SMT encoding from /repo's current working tree: the harness
sources under harness/<Cxx>/ are overlaid into the package under test, go/ssa is built from
the current sources and the symbolic executor (engine/, binary bin/gosmt) interprets it.
"""
import threading
import json, os, re, subprocess, sys, time, hashlib, shutil, concurrent.futures as cf

ROOT = os.path.dirname(os.path.abspath(__file__))
REPO = os.environ.get("VERIF_REPO", "/repo")
# development runs against another checkout (VERIF_REPO) keep their scratch files and evidence apart
ALT = "" if REPO == "/repo" else "-alt" + os.environ.get("VERIF_ALT_TAG", "")
# development: VERIF_ONLY=Entry1,Entry2 runs only those harness entries (scratch files and evidence kept apart)
ONLY = [x for x in os.environ.get("VERIF_ONLY", "").split(",") if x]
if ONLY:
    ALT += "-only"
GOENV = dict(os.environ, GOFLAGS="-mod=mod", GOPROXY="off", GOSUMDB="off", GOTOOLCHAIN="local")
GOSMT = os.path.join(ROOT, "bin", "gosmt")


def sh(cmd, **kw):
    return subprocess.run(cmd, shell=isinstance(cmd, str), capture_output=True, text=True, env=GOENV, **kw)


def build_engine():
    os.makedirs(os.path.join(ROOT, "bin"), exist_ok=True)
    r = sh(["go", "build", "-o", GOSMT, "."], cwd=os.path.join(ROOT, "engine"))
    if r.returncode != 0:
        print(r.stdout + r.stderr)
        sys.exit(2)


def engine_fresh():
    if not os.path.exists(GOSMT):
        return False
    t = os.path.getmtime(GOSMT)
    for f in os.listdir(os.path.join(ROOT, "engine")):
        if f.endswith(".go") and os.path.getmtime(os.path.join(ROOT, "engine", f)) > t:
            return False
    return True


def load_spec(prop):
    with open(os.path.join(ROOT, "harness", prop, "spec.json")) as f:
        return json.load(f)


def load_known():
    p = os.path.join(ROOT, "known_findings.json")
    if not os.path.exists(p):
        return []
    with open(p) as f:
        return json.load(f)["findings"]


def gen_prims(workdir, gopkg, native):
    tmpl = "prims_native.go.tmpl" if native else "prims.go.tmpl"
    src = open(os.path.join(ROOT, "harness", tmpl)).read().replace("package PKG", "package " + gopkg)
    out = os.path.join(workdir, ("native_" if native else "") + "prims_" + gopkg + ".go")
    # jobs of one check run in parallel and may share a package: never let another job see a half
    # written file (write aside, rename)
    tmp = "%s.%d.%d.tmp" % (out, os.getpid(), threading.get_ident())
    with open(tmp, "w") as f:
        f.write(src)
    os.replace(tmp, out)
    return out


def harness_entries(files):
    names = []
    for f in files:
        for m in re.finditer(r"^func (Harness\w+)\(\)", open(f).read(), re.M):
            names.append(m.group(1))
    return names


def opt(entry, job, spec, tier, key, default):
    for scope in (entry.get(tier, {}), entry, job.get(tier, {}), job, spec.get(tier, {}), spec):
        if key in scope:
            return scope[key]
    return default


def run_job(prop, spec, job, tier, workdir, workers, seed, known_open):
    """Runs gosmt for all entries of a job, grouped by identical option sets."""
    gopkg = job["gopkg"]
    files = [os.path.join(ROOT, "harness", prop, f) for f in job["files"]]
    prims = gen_prims(workdir, gopkg, False)
    groups = {}
    for e in job["entries"]:
        if tier == "quick" and e.get("thorough_only"):
            continue
        o = dict(preempt=opt(e, job, spec, tier, "preempt", 0), unwind=opt(e, job, spec, tier, "unwind", 64),
                 maxpaths=opt(e, job, spec, tier, "maxpaths", 100000), solver=opt(e, job, spec, tier, "solver", "z3"),
                 fallback=opt(e, job, spec, tier, "fallback", "z3-new"), queryms=opt(e, job, spec, tier, "queryms", 30000),
                 steps=opt(e, job, spec, tier, "steps", 3000000), witnesses=opt(e, job, spec, tier, "witnesses", 6),
                 cross=opt(e, job, spec, tier, "cross", None), budget=opt(e, job, spec, tier, "budget", 600), maxtimers=opt(e, job, spec, tier, "maxtimers", 6), relaxtrunc=bool(opt(e, job, spec, tier, "relaxtrunc", False)))
        if o["cross"] is None:
            # thorough tier: every discharged (unsat) check query is re-decided by the other z3 version
            o["cross"] = ("z3" if o["solver"] != "z3" else "z3-new") if tier == "thorough" else ""
        groups.setdefault(json.dumps(o, sort_keys=True), []).append(e)
    results = []
    for gi, (okey, entries) in enumerate(groups.items()):
        o = json.loads(okey)
        out = os.path.join(workdir, "%s_%s_%d.json" % (gopkg, hashlib.md5(job["pkg"].encode()).hexdigest()[:6], gi))
        cmd = [GOSMT, "exec", "-dir", REPO, "-pkg", job["pkg"], "-harness", ",".join([prims] + files),
               "-entries", ",".join(e["name"] for e in entries), "-workers", str(workers), "-out", out,
               "-known", ",".join(sorted(known_open)), "-seed", str(seed)]
        if job.get("extra"):
            cmd += ["-extra", ",".join(job["extra"])]
        for k in ("preempt", "unwind", "maxpaths", "solver", "fallback", "queryms", "steps", "witnesses", "cross", "budget", "maxtimers"):
            cmd += ["-" + k, str(o[k])]
        if o["relaxtrunc"]:
            cmd += ["-relaxtrunc"]
        if tier == "thorough":
            cmd += ["-thorough"]
        t0 = time.time()
        r = sh(cmd, cwd=ROOT)
        if r.returncode != 0 or not os.path.exists(out):
            results.append({"error": (r.stdout + r.stderr)[-3000:], "entries": [e["name"] for e in entries], "job": job["pkg"]})
            continue
        doc = json.load(open(out))
        for er in doc["results"]:
            er["job_pkg"] = job["pkg"]
            er["opts"] = o
            er["load_s"] = doc["load_s"]
            results.append(er)
    return results


def native_replay(prop, job, workdir, requests, tag, race=False, timeout=600):
    """Runs the harness functions natively (go test -overlay) with the given models."""
    gopkg = job["gopkg"]
    pkgdir = os.path.join(REPO, job["pkg"].lstrip("./"))
    files = [os.path.join(ROOT, "harness", prop, f) for f in job["files"]]
    nprims = gen_prims(workdir, gopkg, True)
    ents = harness_entries(files)
    test_src = open(os.path.join(ROOT, "harness", "replay_test.go.tmpl")).read()
    test_src = test_src.replace("package PKG", "package " + gopkg).replace(
        "ENTRIES", "\n".join('\t"%s": %s,' % (n, n) for n in ents))
    tfile = os.path.join(workdir, "replay_%s_%s_test.go" % (gopkg, tag))
    open(tfile, "w").write(test_src)
    repl = {os.path.join(pkgdir, "zz_verif_native_prims.go"): nprims,
            os.path.join(pkgdir, "zz_verif_replay_test.go"): tfile}
    for f in files:
        repl[os.path.join(pkgdir, "zz_verif_" + os.path.basename(f))] = f
    # instrumented copies (clock hook / yield points), generated from the CURRENT tree
    hookdir = os.path.join(REPO, "lib", "zzverifhook")
    repl[os.path.join(hookdir, "hook.go")] = os.path.join(ROOT, "harness", "zzverifhook.go.src")
    targets = {}
    for f in job.get("native_now", []):
        targets.setdefault(f, set()).add("now")
    for f in job.get("yieldify", []):
        targets.setdefault(f, set()).add("yield")
    for f, modes in targets.items():
        real = os.path.join(REPO, f)
        outp = os.path.join(workdir, "rw_" + tag + "_" + f.replace("/", "_"))
        r = sh([GOSMT, "rewrite", real, outp] + sorted(modes))
        if r.returncode == 0:
            repl[real] = outp
        else:
            print("INCONCLUSIVE: native instrumentation of %s failed: %s" % (f, (r.stdout + r.stderr)[-300:]))
    ofile = os.path.join(workdir, "overlay_%s_%s.json" % (gopkg, tag))
    json.dump({"Replace": repl}, open(ofile, "w"), indent=1)
    rfile = os.path.join(workdir, "requests_%s_%s.json" % (gopkg, tag))
    json.dump(requests, open(rfile, "w"))
    env = dict(GOENV, VERIF_REPLAY=rfile)
    cmd = ["go", "test", "-vet=off", "-count=1", "-overlay", ofile, "-run", "^TestVerifReplay$", "-timeout", "%ds" % timeout, "-v"]
    if race:
        cmd.append("-race")
    cmd.append(job["pkg"])
    try:
        r = subprocess.run(cmd, cwd=REPO, capture_output=True, text=True, env=env, timeout=timeout + 60)
        out = r.stdout + r.stderr
    except subprocess.TimeoutExpired as e:
        out = (e.stdout or b"").decode() if isinstance(e.stdout, bytes) else (e.stdout or "")
        out += "\nGO TEST TIMEOUT"
    res = {}

    def parse(text):
        for line in text.splitlines():
            if line.startswith("VREPLAY "):
                _, entry, js = line.split(" ", 2)
                try:
                    res.setdefault(entry, []).append(json.loads(js))
                except ValueError:
                    pass

    def crashed(text):
        for line in text.splitlines():
            if line.startswith("panic: ") or line.startswith("fatal error: "):
                return line
        return None

    parse(out)
    if crashed(out):
        # a panic in a goroutine other than the harness's own (or a runtime fatal error) kills the
        # test process: the requests that produced no result are re-run one per process, and a
        # crash of that process is the reproduced panic of that request
        have = {g.get("req") for lst in res.values() for g in lst}
        for ri, rq in enumerate(requests):
            if ri in have:
                continue
            env1 = dict(env, VERIF_REPLAY_ONLY=str(ri))
            try:
                r1 = subprocess.run(cmd, cwd=REPO, capture_output=True, text=True, env=env1, timeout=timeout + 60)
                o1 = r1.stdout + r1.stderr
            except subprocess.TimeoutExpired:
                o1 = "GO TEST TIMEOUT"
            before = len([g for lst in res.values() for g in lst if g.get("req") == ri])
            parse(o1)
            after = len([g for lst in res.values() for g in lst if g.get("req") == ri])
            c = crashed(o1)
            if c and after == before:
                res.setdefault(rq["entry"], []).append(dict(req=ri, index=0, fails=[], obs=[], panic="process crashed: " + c,
                                                            assume_fail=False, timeout=False, miss=[]))
            out += "\n--- single replay of request %d ---\n" % ri + o1[-4000:]
    return res, out, dict(overlay=ofile, requests=rfile)


def known_match(known, prop, entry, check, model):
    for k in known:
        if k["property"] != prop or k.get("status", "open") != "open":
            continue
        if k["entry"] != entry:
            continue
        if k["check"] != "*" and k["check"] != check:
            continue
        return k
    return None


def base_model(model):
    out = {}
    for k, v in (model or {}).items():
        out[k] = v
    return out


def cmd_run(prop, tier, seed):
    t0 = time.time()
    if not engine_fresh():
        build_engine()
    spec = load_spec(prop)
    known = [k for k in load_known() if k["property"] == prop]
    # harnesses borrowed from another property keep that property's open findings excluded (the
    # finding itself is reported by the check of the property it belongs to)
    known_open = set(k["id"] for k in load_known() if k.get("status", "open") == "open")
    workdir = os.path.join(ROOT, "work", "%s-%s%s" % (prop, tier, ALT))
    shutil.rmtree(workdir, ignore_errors=True)
    os.makedirs(workdir)
    os.makedirs(os.path.join(ROOT, "replays"), exist_ok=True)
    for f in os.listdir(os.path.join(ROOT, "replays")):
        if f.startswith(prop + "-"):
            os.remove(os.path.join(ROOT, "replays", f))
    jobs = spec["jobs"]
    if ONLY:
        jobs = [dict(j, entries=[e for e in j["entries"] if e["name"] in ONLY]) for j in jobs]
        jobs = [j for j in jobs if j["entries"]]
    par = min(len(jobs), 4)
    # jobs differ a lot in length: oversubscribe 2x so that the longest one is not left with 4 workers
    workers = max(4, min(16, 32 // max(par, 1)))
    results = []
    with cf.ThreadPoolExecutor(max_workers=par) as ex:
        futs = [ex.submit(run_job, prop, spec, j, tier, workdir, workers, seed, known_open) for j in jobs]
        for j, f in zip(jobs, futs):
            for r in f.result():
                r["_job"] = j
                results.append(r)

    lines = []
    violations = []   # (job, entry, check, violation)
    inconclusive = []
    totals = dict(paths=0, instrs=0, queries=0, solver_s=0.0, obligations=0, discharged=0, reach_zero=[])
    funcs, stubs, samples, per_entry = set(), {}, [], []
    witness_reqs = {}
    for r in results:
        if "error" in r:
            inconclusive.append("engine failed for %s: %s" % (r["entries"], r["error"][-400:]))
            continue
        job = r["_job"]
        totals["paths"] += r["paths"]
        totals["instrs"] += r["instrs"]
        totals["queries"] += r["queries"]
        totals["solver_s"] += r["solver_s"]
        funcs.update(f for f in (r["funcs"] or []) if "Harness" not in f)
        for k, v in (r["stubs"] or {}).items():
            stubs[k] = stubs.get(k, 0) + v
        samples += (r["samples"] or [])[:2]
        ent = dict(entry=r["entry"], paths=r["paths"], instrs=r["instrs"], queries=r["queries"], solver_s=round(r["solver_s"], 3),
                   wall_s=round(r["wall_s"], 2), outcomes=r["outcomes"], opts=r["opts"], checks={}, cross=r.get("cross"),
                   truncated=r["truncated"])
        for cid, cs in sorted(r["checks"].items()):
            if cid.startswith("reach:"):
                ent["checks"][cid] = cs["Reached"]
                continue
            totals["obligations"] += 1
            ok = cs["Violated"] == 0 and cs["Unknown"] == 0 and cs["Reached"] > 0
            if ok:
                totals["discharged"] += 1
            ent["checks"][cid] = cs
            if cs["Unknown"]:
                inconclusive.append("%s/%s: solver answered unknown on %d path(s)" % (r["entry"], cid, cs["Unknown"]))
        bad = {k: v for k, v in r["outcomes"].items() if k not in ("ok", "assume", "stop", "panic", "deadlock", "fatal", "exit", "spin")}
        if "nospin" in r["checks"]:
            bad.pop("unwind", None)
        for k, v in bad.items():
            msgs = [m for m in r["outcome_msgs"] if m.startswith(k + ":")][:3]
            inconclusive.append("%s: %d path(s) ended as %s (%s)" % (r["entry"], v, k, "; ".join(x[:200] for x in msgs)))
        if r["truncated"]:
            inconclusive.append("%s: path budget exhausted" % r["entry"])
        for k, n in (r.get("cross") or {}).items():
            if k.endswith(":sat") or k.endswith(":error"):
                inconclusive.append("%s: cross-check solver answered %s on %d discharged queries" % (r["entry"], k, n))
        # expected reach markers
        exp = next((e for e in job["entries"] if e["name"] == r["entry"]), {})
        for rid in exp.get("must_reach", ["end"]):
            if r["checks"].get("reach:" + rid, {}).get("Reached", 0) == 0:
                inconclusive.append("%s: vacuity witness '%s' not reached" % (r["entry"], rid))
                totals["reach_zero"].append(r["entry"] + ":" + rid)
        for v in r["violations"] or []:
            violations.append((job, r["entry"], v["check"], v))
        if r.get("witnesses") and exp.get("replay", "native") == "native":
            witness_reqs.setdefault(id(job), (job, []))[1].append(
                dict(entry=r["entry"], models=[w["model"] for w in r["witnesses"]], timeout_ms=exp.get("timeout_ms", 10000), repeat=1,
                     _obs=[w["obs"] for w in r["witnesses"]]))
        per_entry.append(ent)

    # ---- translator validation: replay path witnesses natively, compare observations ----
    validated, mismatched = 0, []

    def judge(job, q, i, exp_obs, g):
        """None = not counted, True = validated, str = mismatch text"""
        if g is None:
            return "%s witness %d: no native result" % (q["entry"], i)
        if g["assume_fail"] or g["miss"]:
            return None
        tol = next((e.get("obs_tolerance", 0) for e in job["entries"] if e["name"] == q["entry"]), 0)
        if obs_equal(exp_obs, g["obs"] or [], tol) and not g["panic"] and not g["timeout"]:
            return True
        return "%s witness %d: engine %s native %s panic=%s timeout=%s" % (q["entry"], i, exp_obs, g["obs"], g["panic"], g["timeout"])

    for _, (job, reqs) in witness_reqs.items():
        clean = [{k: v for k, v in q.items() if k != "_obs"} for q in reqs]
        res, out, _ = native_replay(prop, job, workdir, clean, "wit")
        retry = []
        for q in reqs:
            got = res.get(q["entry"], [])
            for i, exp_obs in enumerate(q["_obs"]):
                v = judge(job, q, i, exp_obs, next((x for x in got if x["index"] == i), None))
                if v is True:
                    validated += 1
                elif v is not None:
                    retry.append((q, i, exp_obs, v))
        # a witness of a concurrent harness can miss natively on a loaded machine (real scheduler,
        # real timers): it is replayed once more on its own before it counts as a mismatch
        for q, i, exp_obs, first in retry:
            one = [dict(entry=q["entry"], models=[q["models"][i]], timeout_ms=q["timeout_ms"], repeat=1)]
            res2, _, _ = native_replay(prop, job, workdir, one, "wit2")
            v = judge(job, q, 0, exp_obs, next(iter(res2.get(q["entry"], [])), None))
            if v is True:
                validated += 1
            else:
                mismatched.append(first)
        if not res:
            mismatched.append("native witness run produced no results: " + out[-500:])
    for mm in mismatched:
        inconclusive.append("translator validation mismatch: " + mm)

    # ---- replay violations natively ----
    confirmed, spurious, knownhits = [], [], {}
    byjob = {}
    for job, entry, check, v in violations:
        byjob.setdefault(id(job), (job, []))[1].append((entry, check, v))
    os.makedirs(os.path.join(ROOT, "replays"), exist_ok=True)
    for _, (job, vs) in byjob.items():
        reqs, meta = [], []
        for entry, check, v in vs:
            exp = next((e for e in job["entries"] if e["name"] == entry), {})
            mode = exp.get("replay", "native")
            reqs.append(dict(entry=entry, models=[v["model"] or {}], timeout_ms=exp.get("timeout_ms", 8000),
                             repeat=exp.get("repeat", 1)))
            meta.append((entry, check, v, mode, exp))
        res, out, paths = native_replay(prop, job, workdir, reqs, "viol", race=any(m[4].get("race") for m in meta))
        allres = [g for lst in res.values() for g in lst]
        for ri, (entry, check, v, mode, exp) in enumerate(meta):
            reps = exp.get("repeat", 1)
            chunk = [g for g in allres if g.get("req") == ri]
            reproduced = False
            for g in chunk:
                if check == "nopanic":
                    reproduced |= bool(g["panic"])
                elif check in ("nodeadlock", "nospin"):
                    reproduced |= g["timeout"]
                elif check.startswith("race"):
                    reproduced |= False
                else:
                    reproduced |= check in (g["fails"] or [])
            # a happens-before obligation (race analysis) is confirmed by the native race detector; other
            # obligations of the same entry must fail natively themselves
            rc = exp.get("race_checks")
            is_race_check = (check in rc) if rc is not None else ("race" in check)
            if exp.get("race") and is_race_check and "WARNING: DATA RACE" in out:
                reproduced = True
            rec = dict(property=prop, entry=entry, check=check, model=v["model"], note=v.get("note"), trace=v.get("trace"),
                       sched=v.get("sched"), job=dict(pkg=job["pkg"], gopkg=job["gopkg"], files=job["files"],
                                                      native_now=job.get("native_now", []), yieldify=job.get("yieldify", [])),
                       native=chunk, reproduced=reproduced, replay=dict(repeat=reps, timeout_ms=exp.get("timeout_ms", 8000), race=bool(exp.get("race")), race_check=bool(exp.get("race") and is_race_check)))
            h = hashlib.md5(json.dumps([entry, check, v["model"]], sort_keys=True).encode()).hexdigest()[:10]
            path = os.path.join(ROOT, "replays", "%s-%s.json" % (prop, h))
            rec["path"] = path
            k = known_match(known, prop, entry, check, v["model"])
            if k is not None:
                knownhits.setdefault((k["id"], k["entry"]), []).append(rec)
                continue
            if reproduced:
                json.dump(rec, open(path, "w"), indent=1)
                confirmed.append(rec)
            else:
                spurious.append(rec)

    # ---- report ----
    for (kid, kentry), recs in knownhits.items():
        k = next(x for x in known if x["id"] == kid and x["entry"] == kentry)
        print("KNOWN-FINDING: property=%s %s [%s; %d counterexample(s), reproduced natively: %s]" % (
            prop, k["what"], kid, len(recs), any(r["reproduced"] for r in recs)))
    for k in known:
        if k.get("status", "open") == "open" and (k["id"], k["entry"]) not in knownhits:
            print("NOTE: known finding %s (%s) was not observed in this run" % (k["id"], k["entry"]))
    for rec in confirmed:
        print("VIOLATION property=%s replay=%s" % (prop, rec["path"]))
        print("  obligation %s/%s model=%s %s" % (rec["entry"], rec["check"], json.dumps(rec["model"]), rec.get("note") or ""))
    for rec in spurious:
        print("SPURIOUS (not reproduced natively, not reported): %s/%s model=%s" % (rec["entry"], rec["check"], json.dumps(rec["model"])))
        inconclusive.append("%s/%s: solver model did not reproduce natively" % (rec["entry"], rec["check"]))
    for s in inconclusive:
        print("INCONCLUSIVE:", s)

    wall = time.time() - t0
    ev = dict(
        property_id=prop, tier=tier, seed=seed, level="model_checking",
        coverage=dict(
            states=max(totals["paths"], 0), transitions=int(totals["instrs"]),
            traces_validated_against_impl=validated + sum(1 for r in confirmed if r["reproduced"]),
            samples=(samples[:6] or ["(no path conditions recorded)"]),
            obligations=totals["obligations"], discharged=totals["discharged"],
            queries=totals["queries"], solver_s=round(totals["solver_s"], 2),
            functions_encoded=sorted(funcs), stubs_hit=stubs, entries=per_entry,
            inconclusive=inconclusive, known_findings_observed=sorted("%s@%s" % k for k in knownhits), spurious=len(spurious),
            translator_mismatches=mismatched,
            bounds=spec.get("bounds", {}).get(tier, spec.get("bounds")), outside_claim=spec.get("outside"),
            explanation="states = feasible symbolic paths explored; transitions = SSA instructions interpreted; "
                        "obligations = (harness, check) pairs, discharged = those whose negation was unsat on every path; "
                        "traces_validated = path witnesses (solver model + predicted observations) replayed natively with "
                        "identical observations, plus natively reproduced counterexamples"),
        assumptions=spec.get("assumptions", []), wall_s=round(wall, 2), violations=len(confirmed))
    if prop == "SELF":
        # engine self-check (run by setup): no evidence file; fails only on a translator mismatch
        print("selfcheck: %d path witnesses replayed natively with identical observations, %d mismatches" % (validated, len(mismatched)))
        return 3 if (mismatched or validated == 0) else 0
    evdir = os.path.join(ROOT, "evidence") if not ALT else os.path.join(ROOT, "work", "evidence" + ALT)
    os.makedirs(evdir, exist_ok=True)
    json.dump(ev, open(os.path.join(evdir, prop + ".json"), "w"), indent=1)
    print("%s %s: %d paths, %d obligations (%d discharged), %d queries, %.1fs solver, %.1fs wall; confirmed=%d known=%d spurious=%d inconclusive=%d validated=%d" % (
        prop, tier, totals["paths"], totals["obligations"], totals["discharged"], totals["queries"], totals["solver_s"], wall,
        len(confirmed), len(knownhits), len(spurious), len(inconclusive), validated))
    return 1 if confirmed else 0


def obs_equal(a, b, tol):
    if len(a) != len(b):
        return False
    for x, y in zip(a, b):
        nx, vx = x.rsplit("=", 1)
        ny, vy = y.rsplit("=", 1)
        if nx != ny:
            return False
        try:
            if abs(int(vx) - int(vy)) > tol:
                return False
        except ValueError:
            return False
    return True


def cmd_replay(path):
    rec = json.load(open(path))
    prop = rec["property"]
    job = rec["job"]
    workdir = os.path.join(ROOT, "work", "replay-" + prop + ALT)
    shutil.rmtree(workdir, ignore_errors=True)
    os.makedirs(workdir)
    reqs = [dict(entry=rec["entry"], models=[rec["model"] or {}], timeout_ms=rec["replay"]["timeout_ms"], repeat=rec["replay"]["repeat"])]
    res, out, _ = native_replay(prop, job, workdir, reqs, "replay", race=rec["replay"].get("race", False))
    got = res.get(rec["entry"], [])
    ok = False
    for g in got:
        if rec["check"] == "nopanic":
            ok |= bool(g["panic"])
        elif rec["check"] in ("nodeadlock", "nospin"):
            ok |= g["timeout"]
        else:
            ok |= rec["check"] in (g["fails"] or [])
    if rec["replay"].get("race_check", rec["replay"].get("race")) and "WARNING: DATA RACE" in out:
        ok = True
    print(json.dumps(got, indent=1))
    print("REPRODUCED" if ok else "NOT REPRODUCED", rec["entry"], rec["check"])
    return 1 if ok else 0


def main():
    if len(sys.argv) < 2:
        print(__doc__)
        return 2
    if sys.argv[1] == "setup":
        build_engine()
        print("engine built:", GOSMT)
        return cmd_run("SELF", "quick", 0)
    if sys.argv[1] == "run":
        prop = sys.argv[2]
        tier = os.environ.get("VERIF_TIER", "quick")
        if "--tier" in sys.argv:
            tier = sys.argv[sys.argv.index("--tier") + 1]
        seed = int(os.environ.get("VERIF_SEED", "0") or 0)
        return cmd_run(prop, tier, seed)
    if sys.argv[1] == "replay":
        return cmd_replay(sys.argv[2])
    print(__doc__)
    return 2


if __name__ == "__main__":
    sys.exit(main())
