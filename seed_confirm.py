#!/usr/bin/env python3
"""seed_confirm.py <Cxx> [<seed-id>] : confirms a seeded change produced in /tmp/seed/<Cxx> in a
fresh scratch worktree (demo passes without the patch, fails with it; project builds; the
existing test suite still passes with the patch) and stores it under /verif/seeded/<seed-id>/."""
import json, os, shutil, subprocess, sys, time
ENV = dict(os.environ, GOFLAGS="-mod=mod", GOPROXY="off", GOSUMDB="off", GOTOOLCHAIN="local")
def sh(cmd, cwd=None, timeout=1800):
    r = subprocess.run(cmd, shell=True, cwd=cwd, capture_output=True, text=True, errors="replace", env=ENV, timeout=timeout)
    return r.returncode, (r.stdout + r.stderr)
pid = sys.argv[1]
sid = sys.argv[2] if len(sys.argv) > 2 else pid + "-s1"
src = os.environ.get("SEED_ROOT", "/tmp/seed") + "/" + pid
dst = "/verif/seeded/" + sid
rc, out = sh("git status --porcelain --untracked-files=all", cwd=src)
untracked = [l[3:] for l in out.splitlines() if l.startswith("?? ") and not l[3:].startswith("SEED/")]
patch = open(src + "/SEED/patch.diff").read()
scratch = "/tmp/confirm_" + sid
sh("git -C /repo worktree remove --force %s" % scratch)
rc, out = sh("git -C /repo worktree add -q --detach %s HEAD" % scratch)
assert rc == 0, out
res = {}
try:
    demos = []
    for f in untracked:
        os.makedirs(os.path.dirname(os.path.join(scratch, f)), exist_ok=True)
        shutil.copy(os.path.join(src, f), os.path.join(scratch, f))
        demos.append(f)
    pkgs = sorted(set("./" + os.path.dirname(f) for f in demos if f.endswith("_test.go")))
    mains = [f for f in demos if f.endswith(".go") and not f.endswith("_test.go")]
    demo_cmd = "go test -vet=off -count=1 " + " ".join(pkgs) if pkgs else None
    if not demo_cmd and mains:
        demo_cmd = "go run ./" + os.path.dirname(mains[0])
    demo_cmd = os.environ.get("SEED_DEMO_CMD", demo_cmd)
    res["demo_files"], res["demo_cmd"] = demos, demo_cmd
    rc, out = sh(demo_cmd, cwd=scratch)
    res["demo_without_patch_rc"] = rc
    res["demo_without_patch_tail"] = out[-600:]
    open("/tmp/confirm_patch_%s.diff" % sid, "w").write(patch)
    rc, out = sh("git apply /tmp/confirm_patch_%s.diff" % sid, cwd=scratch)
    assert rc == 0, "patch does not apply: " + out
    rc, out = sh("go build ./...", cwd=scratch)
    res["build_rc"] = rc
    # a demonstration that depends on timing may need several runs to fail (SEED_DEMO_COUNT)
    n = int(os.environ.get("SEED_DEMO_COUNT", "1"))
    rc, out = sh(demo_cmd.replace("-count=1", "-count=%d" % n) if n > 1 else demo_cmd, cwd=scratch)
    res["demo_with_patch_rc"] = rc
    res["demo_with_patch_tail"] = out[-1200:]
    # existing suite with the patch, demo files removed
    for f in demos:
        os.remove(os.path.join(scratch, f))
    t0 = time.time()
    rc, out = sh("go test -vet=off -count=1 -timeout 25m ./... 2>&1 | grep -v 'no test files' | grep -v '^ok'", cwd=scratch)
    # tests/... packages listen on fixed ports and collide with concurrent runs: retry failing
    # packages alone (up to 4 times) before calling it a failure
    import re
    failed = sorted(set(re.findall(r"^FAIL\s+(github.com/yandex/pandora/\S+)", out, re.M)))
    still = []
    for pk in failed:
        rel = "./" + pk.split("github.com/yandex/pandora/")[1]
        okp = False
        for _ in range(4):
            rc2, out2 = sh("go test -vet=off -count=1 " + rel, cwd=scratch)
            if rc2 == 0:
                okp = True
                break
            time.sleep(2)
        if not okp:
            still.append(pk + ": " + out2[-600:])
    res["suite_failed_first_run"] = failed
    res["suite_failures"] = "\n".join(still)
    res["suite_s"] = round(time.time() - t0, 1)
finally:
    sh("git -C /repo worktree remove --force %s" % scratch)
ok = res.get("demo_without_patch_rc") == 0 and res.get("demo_with_patch_rc") not in (0, None) and res.get("build_rc") == 0 and not res.get("suite_failures")
res["confirmed"] = ok
print(json.dumps(res, indent=1))
if ok:
    os.makedirs(dst + "/demo", exist_ok=True)
    open(dst + "/patch.diff", "w").write(patch)
    for f in untracked:
        os.makedirs(os.path.dirname(os.path.join(dst, "demo", f)), exist_ok=True)
        shutil.copy(os.path.join(src, f), os.path.join(dst, "demo", f))
    if os.path.exists(src + "/SEED/notes.md"):
        shutil.copy(src + "/SEED/notes.md", dst + "/notes.md")
    meta = dict(id=sid, property=pid, checks=[pid], needs="see notes.md", ran=dict(
        demo_cmd=res["demo_cmd"], demo_without_patch="pass", demo_with_patch="fail", build="ok",
        existing_suite_with_patch="pass (%ss)" % res["suite_s"]), demo_files=untracked)
    json.dump(meta, open(dst + "/meta.json", "w"), indent=1)
    print("stored", dst)
sys.exit(0 if ok else 1)
