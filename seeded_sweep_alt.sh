#!/bin/sh
# seeded_sweep_alt.sh [ids...] : runs seeded_eval_alt.sh over all (or the given) seeds, one line per seed in work/sweep_alt.log
cd "$(dirname "$0")"
ids="$*"
[ -n "$ids" ] || ids=$(ls seeded | grep -E '^C[0-9]+-s[0-9]+$')
for s in $ids; do
  sh seeded_eval_alt.sh $s quick > work/sweep_$s.log 2>&1
  echo "$(date +%H:%M:%S) $(grep '^RESULT' work/sweep_$s.log)" >> work/sweep_alt.log
done
