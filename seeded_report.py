#!/usr/bin/env python3
"""seeded_report.py [ids...] : applies every seeded change to /repo in turn, runs the checks named
in its meta.json (quick tier), reverts, and rewrites seeded/README.md and each meta.json
("evaluation" key)."""
import json, os, re, subprocess, sys, glob
ROOT = os.path.dirname(os.path.abspath(__file__))
ids = sys.argv[1:] or sorted(os.path.basename(os.path.dirname(p)) for p in glob.glob(ROOT + "/seeded/*/meta.json"))
rows = []
for sid in ids:
    d = os.path.join(ROOT, "seeded", sid)
    meta = json.load(open(d + "/meta.json"))
    if subprocess.run(["git", "-C", "/repo", "diff", "--quiet"]).returncode != 0:
        print("/repo not clean"); sys.exit(2)
    if subprocess.run(["git", "-C", "/repo", "apply", d + "/patch.diff"]).returncode != 0:
        print("patch does not apply:", sid); continue
    ev = {}
    try:
        for c in meta.get("checks", [meta["property"]]):
            r = subprocess.run(["python3", "verif.py", "run", c, "--tier", "quick"], cwd=ROOT, capture_output=True, text=True)
            obls = sorted(set(re.findall(r"^  obligation (\S+)", r.stdout, re.M)))
            ev[c] = dict(exit=r.returncode, violated_obligations=obls[:8], summary=r.stdout.strip().splitlines()[-1] if r.stdout.strip() else "")
    finally:
        subprocess.run(["git", "-C", "/repo", "checkout", "--", "."])
    meta["evaluation"] = ev
    meta["caught"] = any(v["exit"] == 1 for v in ev.values())
    json.dump(meta, open(d + "/meta.json", "w"), indent=1)
    print(sid, "CAUGHT" if meta["caught"] else "MISSED", {c: v["violated_obligations"][:2] for c, v in ev.items()})
# README over all seeds
lines = ["# Seeded changes\n",
         "Each directory holds an independently produced change to yandex/pandora that breaks one property while the project still",
         "compiles and its existing tests pass (`patch.diff`), a demonstration that fails with the change and passes without it (`demo/`),",
         "the author's notes (`notes.md`) and `meta.json` (what was run to confirm it, which checks were run against it and what they reported).",
         "None of these changes is ever committed to /repo; `seeded_eval.sh <id>` / `seeded_report.py` apply one, run the checks and revert.\n",
         "| seed | property | what it needs to manifest | caught by (quick tier) | strengthened after first miss |", "|---|---|---|---|---|"]
for p in sorted(glob.glob(ROOT + "/seeded/*/meta.json")):
    m = json.load(open(p))
    ev = m.get("evaluation", {})
    caught = "; ".join("%s: %s" % (c, ", ".join(o.split("/")[-1] for o in v["violated_obligations"][:3])) for c, v in ev.items() if v["exit"] == 1) or "**missed**"
    lines.append("| %s | %s | %s | %s | %s |" % (m["id"], m["property"], m.get("needs", "").replace("|", "/"), caught, m.get("strengthened", "")))
open(ROOT + "/seeded/README.md", "w").write("\n".join(lines) + "\n")
