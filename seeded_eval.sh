#!/bin/sh
# seeded_eval.sh <seed-id> [tier] : applies seeded/<seed-id>/patch.diff to /repo, runs the checks
# named in its meta.json (key "checks", default: the property it breaks), reverts /repo.
set -u
id=$1; tier=${2:-quick}
cd "$(dirname "$0")"
d=seeded/$id
[ -f $d/patch.diff ] || { echo "no $d/patch.diff"; exit 2; }
git -C /repo diff --quiet || { echo "/repo has local changes"; exit 2; }
git -C /repo apply $d/patch.diff || { echo "patch does not apply"; exit 2; }
checks=$(python3 -c "import json;m=json.load(open('$d/meta.json'));print(' '.join(m.get('checks',[m['property']])))")
res=0
for c in $checks; do
  python3 verif.py run $c --tier $tier > work/seed_${id}_$c.log 2>&1; rc=$?
  echo "== $id / $c (tier $tier): exit $rc"
  grep -E "^(VIOLATION|  obligation|KNOWN-FINDING|INCONCLUSIVE)" work/seed_${id}_$c.log | cut -c1-260 | head -12
  tail -1 work/seed_${id}_$c.log
  [ $rc -eq 1 ] && res=1
done
git -C /repo checkout -- .
git -C /repo status --short | head -3
[ $res -eq 1 ] && echo "RESULT $id: CAUGHT" || echo "RESULT $id: MISSED"
