package postprocessor

// gRPC assert/response on any call outcome: error or nil, never a fault (a nil message included).
func HarnessC19GrpcAssertResponse() {
	a := AssertResponse{StatusCode: int(vNondetInt("want", 0, 599))}
	if vNondetBool("payloadPattern") {
		a.Payload = []string{"ok"}
	}
	code := int(vNondetInt("code", 0, 599))
	_, err := a.Process(nil, code) // the call failed: there is no response message
	if err == nil {
		vCheck("R3.grpc.status.matched", a.StatusCode == 0 || a.StatusCode == code)
		vCheck("R3.grpc.nil.message.only.without.payload.patterns", len(a.Payload) == 0)
	}
	vReach("end")
}
