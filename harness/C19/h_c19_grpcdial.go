package grpc

import (
	"context"

	"github.com/jhump/protoreflect/desc"
	"github.com/yandex/pandora/core"
	"go.uber.org/zap"
	ggrpc "google.golang.org/grpc"
)

// ---- C19: a gRPC target that refuses (or is slow to accept) connections when an instance is
// created does not stop the run: the gun's connection is made lazily, Bind succeeds, and the
// refusal shows per shot (Unavailable -> 503, covered by the status table of C10).
// grpc.DialContext is the environment. Its contract here: a dial that was not asked to block
// returns a connection object at once, whatever the target does; a blocking dial (grpc.WithBlock)
// to a target that does not accept connections fails when its context expires. Natively the real
// grpc library dials a local port nobody listens on.

var c19dial struct {
	blockOpt ggrpc.DialOption
	refuses  bool
	dials    int
}

func vStub_google_golang_org_grpc_WithBlock() ggrpc.DialOption { return c19dial.blockOpt }
func vStub_google_golang_org_grpc_DialContext(ctx context.Context, target string, opts ...ggrpc.DialOption) (*ggrpc.ClientConn, error) {
	c19dial.dials++
	for _, o := range opts {
		if o == c19dial.blockOpt && c19dial.refuses {
			return nil, context.DeadlineExceeded
		}
	}
	return &ggrpc.ClientConn{}, nil
}

type c19NopAggr struct{}

func (c19NopAggr) Report(core.Sample)                                   {}
func (c19NopAggr) Run(ctx context.Context, _ core.AggregatorDeps) error { return nil }

func HarnessC19GrpcTargetRefuses() {
	c19dial.blockOpt = ggrpc.WithUserAgent("marker") // (any option value: only its identity is used)
	c19dial.refuses = vNondetBool("targetRefuses")
	c19dial.dials = 0
	conf := DefaultGunConfig()
	conf.Target = "127.0.0.1:1" // nobody listens there
	conf.TLS = vNondetBool("tls")
	if vNondetBool("dialTimeoutSet") {
		conf.DialOptions.Timeout = 200_000_000
	}
	if vNondetBool("authority") {
		conf.DialOptions.Authority = "a.example"
	}
	g := NewGun(conf)
	shared := &SharedDeps{services: map[string]desc.MethodDescriptor{}}
	err := g.Bind(c19NopAggr{}, core.GunDeps{Ctx: context.Background(), Log: zap.NewNop(), Shared: shared})
	vCheck("R5.bind.does.not.depend.on.the.target.accepting", err == nil)
	if !vNative() {
		vCheck("R5.one.connection.per.instance", c19dial.dials == 1)
	}
	vObserve("ok", 1)
	vReach("end")
}
