package phttp

import (
	"bytes"
	"context"
	"crypto/tls"
	"errors"
	"net"
	"net/http"
	"strings"
	"time"
)

// ---- C19: the http2 guns' client wrapper and the connect gun's dial function against any
// behaviour of the peer. Only the documented fatal condition (a target without HTTP/2) may
// panic; everything else is an error or a response handed on unchanged.

type c19Inner struct {
	res *http.Response
	err error
}

func (c *c19Inner) Do(req *http.Request) (*http.Response, error) { return c.res, c.err }
func (c *c19Inner) CloseIdleConnections()                        {}

func HarnessC19HTTP2Client() {
	inner := &c19Inner{}
	kind := vConcretize(vNondetInt("kind", 0, 7))
	wantPanic := false
	switch kind {
	case 0: // proper HTTP/2
		inner.res = &http.Response{StatusCode: int(vNondetInt("status", 100, 599)), TLS: &tls.ConnectionState{NegotiatedProtocol: "h2", NegotiatedProtocolIsMutual: true}}
	case 1: // plain connection
		inner.res = &http.Response{StatusCode: 200}
		wantPanic = true
	case 2: // TLS but HTTP/1.1
		inner.res = &http.Response{StatusCode: 200, TLS: &tls.ConnectionState{NegotiatedProtocol: "http/1.1", NegotiatedProtocolIsMutual: true}}
		wantPanic = true
	case 3: // h2 not negotiated mutually
		inner.res = &http.Response{StatusCode: 200, TLS: &tls.ConnectionState{NegotiatedProtocol: "h2"}}
		wantPanic = true
	case 4:
		inner.err = errors.New("connection refused")
	case 5:
		inner.err = hTimeoutErr{}
	case 6: // the TLS alert of a server that knows no ALPN protocol of ours
		inner.err = &net.OpError{Op: "remote error", Net: "tcp", Err: errors.New("tls: no application protocol")}
		wantPanic = true
	default: // some other remote error
		inner.err = &net.OpError{Op: "remote error", Net: "tcp", Err: errors.New("tls: handshake failure")}
	}
	cl := &panicOnHTTP1Client{Client: inner}
	panicked := false
	var res *http.Response
	var err error
	func() {
		defer func() {
			if recover() != nil {
				panicked = true
			}
		}()
		res, err = cl.Do(&http.Request{})
	}()
	vCheck("R6.http2.panics.only.without.http2", panicked == wantPanic)
	if !panicked {
		if inner.err != nil {
			vCheck("R6.http2.error.passed.on", err == inner.err && res == nil)
		} else {
			vCheck("R6.http2.response.passed.on", err == nil && res == inner.res)
		}
	}
	vReach("end")
}

// in-memory connection: the proxy's answer is what the harness chose
type c19Conn struct {
	in     *strings.Reader
	out    bytes.Buffer
	closed int
}

func (c *c19Conn) Read(p []byte) (int, error)         { return c.in.Read(p) }
func (c *c19Conn) Write(p []byte) (int, error)        { return c.out.Write(p) }
func (c *c19Conn) Close() error                       { c.closed++; return nil }
func (c *c19Conn) LocalAddr() net.Addr                { return nil }
func (c *c19Conn) RemoteAddr() net.Addr               { return nil }
func (c *c19Conn) SetDeadline(t time.Time) error      { return nil }
func (c *c19Conn) SetReadDeadline(t time.Time) error  { return nil }
func (c *c19Conn) SetWriteDeadline(t time.Time) error { return nil }

type c19Dialer struct {
	conn *c19Conn
	err  error
	addr string
}

func (d *c19Dialer) DialContext(ctx context.Context, network, address string) (net.Conn, error) {
	d.addr = address
	if d.err != nil {
		return nil, d.err
	}
	return d.conn, nil
}

func HarnessC19ConnectDial() {
	answer := []string{
		"HTTP/1.1 200 Connection established\r\n\r\n",
		"HTTP/1.1 200 OK\r\nContent-Length: 5\r\n\r\n",
		"HTTP/1.1 407 Proxy Authentication Required\r\n\r\n",
		"HTTP/1.1 502 Bad Gateway\r\nContent-Length: 0\r\n\r\n",
		"HTTP/1.1 200 OK\r\n\r\nextra",
		"garbage\r\n\r\n",
		"",
	}[vConcretize(vNondetInt("answer", 0, 6))]
	d := &c19Dialer{conn: &c19Conn{in: strings.NewReader(answer)}}
	dialFails := vNondetBool("dialFails")
	if dialFails {
		d.err = errors.New("connection refused")
	}
	// connect-ssl wraps the dialed connection in TLS; the handshake itself needs a peer and is
	// outside the model, so the option is explored on the failing dial only
	connectSSL := dialFails && vNondetBool("connectSSL")
	dial := newConnectDialFunc("proxy.example:3128", connectSSL, d)
	conn, err := dial(context.Background(), "tcp", "origin.example:80")
	ok := !dialFails && (strings.HasPrefix(answer, "HTTP/1.1 200") && !strings.HasSuffix(answer, "extra"))
	if ok {
		vCheck("R7.connect.tunnel.established", err == nil && conn == net.Conn(d.conn) && d.conn.closed == 0)
		vCheck("R7.connect.request.sent", strings.HasPrefix(d.conn.out.String(), "CONNECT origin.example:80 HTTP/1.1\r\n"))
		vCheck("R7.connect.dials.the.proxy", d.addr == "proxy.example:3128")
	} else {
		vCheck("R7.connect.failure.is.error", err != nil && conn == nil)
		if !dialFails {
			vCheck("R7.connect.failed.conn.closed", d.conn.closed == 1)
		}
	}
	vReach("end")
}
