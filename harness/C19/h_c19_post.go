package postprocessor

import (
	"net/http"
	"strconv"
	"strings"

	"golang.org/x/net/html"
)

// ---- C19: response-derived data never crashes a postprocessor ----

// R2: the substr(start[,end]) modifier on header values of any length, applied twice.
func HarnessC19Substr() {
	start := vNondetInt("start", -vHi(6, 12), vHi(6, 12))
	end := vNondetInt("end", -vHi(6, 12), vHi(6, 12))
	two := vNondetBool("twoargs")
	args := []string{strconv.Itoa(int(start))}
	if two {
		args = append(args, strconv.Itoa(int(end)))
	}
	p := &VarHeaderPostprocessor{}
	f, err := p.substr(args)
	vCheck("R2.modifier.built", err == nil)
	if err != nil {
		return
	}
	l1 := int(vConcretize(vNondetInt("len1", 0, vHi(4, 8))))
	l2 := int(vConcretize(vNondetInt("len2", 0, vHi(4, 8))))
	v1 := vNondetString("v1", l1)
	v2 := vNondetString("v2", l2)
	r1 := f(v1) // implicit: no out-of-range slice
	r2 := f(v2)
	r1again := f(v1)
	vCheck("R2.same.value.same.result", r1 == r1again)
	vCheck("R2.result.is.substring", len(r1) <= len(v1) && len(r2) <= len(v2))
	vObserve("l", int64(len(r1)))
	vReach("end")
}

// R1/R2 through Process: a header shorter than the configured substring.
func HarnessC19VarHeaderProcess() {
	l := int(vConcretize(vNondetInt("len", 0, vHi(4, 8))))
	val := vNondetString("val", l)
	for i := 0; i < l; i++ {
		vAssume(val[i] >= 'a' && val[i] <= 'z')
	}
	p := &VarHeaderPostprocessor{Mapping: map[string]string{"tok": "X-Tok|substr(1,3)|upper"}}
	resp := &http.Response{StatusCode: 200, Header: http.Header{"X-Tok": []string{val}}}
	out, err := p.Process(resp, nil)
	vCheck("R1.process.no.error", err == nil)
	if l > 0 && err == nil {
		s, _ := out["tok"].(string)
		vCheck("R1.value.extracted", len(s) <= 2)
	}
	vReach("end")
}

// R3: AssertResponse on any status / size / op: error or nil, never a fault.
func HarnessC19AssertResponse() {
	ops := []string{"eq", "=", "lt", "<", "gt", ">", "zz"}
	op := ops[vConcretize(vNondetInt("op", 0, 6))]
	a := AssertResponse{StatusCode: int(vNondetInt("want", 0, 599)), Size: &AssertSize{Val: int(vNondetInt("size", 0, 10)), Op: op},
		Body: []string{"ok"}, Headers: map[string]string{"X-A": "1"}}
	bl := int(vConcretize(vNondetInt("bodylen", 0, 3)))
	body := vNondetString("body", bl)
	resp := &http.Response{StatusCode: int(vNondetInt("status", 100, 599)), Header: http.Header{}}
	if vNondetBool("hdr") {
		resp.Header.Set("X-A", "1")
	}
	_, err := a.Process(resp, strings.NewReader(body))
	if err == nil {
		vCheck("R3.status.matched", a.StatusCode == 0 || a.StatusCode == resp.StatusCode)
		vCheck("R3.body.contains", strings.Contains(body, "ok"))
	}
	vReach("end")
}

// R4: an xpath expression that does not evaluate to a node set must not crash.
func HarnessC19XpathNonNodeResult() {
	qs := []string{"//a", "count(//a)", "string(//a)", "boolean(//a)"}
	q := qs[vConcretize(vNondetInt("q", 0, 3))]
	p := &VarXpathPostprocessor{}
	_, _ = p.getValuesFromDOM(&html.Node{Type: html.DocumentNode}, q)
	vReach("end")
}
