package postprocessor

import (
	"errors"
	"strings"
)

// ---- C19: var/jsonpath over any answer: a body that is not JSON, JSON of any shape, paths that
// match nothing: Process returns the values it could extract and an error for the rest, never
// panics. The JSON parser and the jsonpath evaluator are libraries: the decoder is the engine's
// model (an empty queue = unparsable body), jsonpath.Get is the harness stub below.

var c19jp struct {
	failPath string
	calls    int
}

func vStub_github_com_PaesslerAG_jsonpath_Get(path string, value interface{}) (interface{}, error) {
	c19jp.calls++
	if path == c19jp.failPath {
		return nil, errors.New("unknown key")
	}
	m, _ := value.(map[string]any)
	return m[strings.TrimPrefix(path, "$.")], nil
}

func HarnessC19VarJsonpathProcess() {
	c19jp.calls = 0
	c19jp.failPath = ""
	bodyKind := vConcretize(vNondetInt("body", 0, 2)) // 0 not JSON, 1 object, 2 object lacking a key
	text := "<html>"
	switch bodyKind {
	case 1:
		text = `{"a": "x", "b": 2}`
		vJSONQueue(map[string]any{"a": "x", "b": float64(2)})
	case 2:
		text = `{"a": "x"}`
		vJSONQueue(map[string]any{"a": "x"})
		c19jp.failPath = "$.b"
	}
	nmap := int(vConcretize(vNondetInt("mappings", 0, 2)))
	p := &VarJsonpathPostprocessor{Mapping: map[string]string{}}
	if nmap >= 1 {
		p.Mapping["va"] = "$.a"
	}
	if nmap >= 2 {
		p.Mapping["vb"] = "$.b"
	}
	res, err := p.Process(nil, strings.NewReader(text))
	switch {
	case nmap == 0:
		vCheck("R5.no.mapping.nothing.to.do", res == nil && err == nil)
	case bodyKind == 0:
		vCheck("R5.unparsable.body.is.error", err != nil)
	default:
		vCheck("R5.extracted.value", res["va"] == "x")
		if nmap == 2 && bodyKind == 2 {
			vCheck("R5.missing.key.is.error", err != nil)
		}
		if nmap == 2 && bodyKind == 1 {
			vCheck("R5.all.extracted", err == nil && res["vb"] == float64(2))
		}
	}
	vObserve("n", int64(len(res)))
	vReach("end")
}
