package provider

import (
	"context"
	"io"
	"net/http"
	"strings"
	"sync"

	phttp "github.com/yandex/pandora/components/guns/http"
	"github.com/yandex/pandora/components/providers/http/config"
	"github.com/yandex/pandora/components/providers/http/decoders"
	"github.com/yandex/pandora/components/providers/http/middleware"
	"github.com/yandex/pandora/core"
	"go.uber.org/zap"
)

// ---- C14: preload on/off deliver the same sequence and end the same way; chosencases selects
// exactly the listed tags (in file order) and limit counts delivered entries ----

func c14Diff(dec config.DecoderType) {
	vSpinIsViolation()
	E := int(vConcretize(vNondetInt("E", 2, 3)))
	limit := uint(vNondetInt("limit", 0, vHi(3, 6)))
	passes := uint(vNondetInt("passes", 0, vHi(3, 6)))
	var chosen []string
	for _, tg := range []string{"t1", "t2", "t3"} {
		if vNondetBool("choose_" + tg) {
			chosen = append(chosen, tg)
		}
	}
	file := c08File(dec, E)
	all := []string{"t1", "t2", "t1"}[:E]
	// reference: entries of one pass that are selected
	var sel []string
	for _, tg := range all {
		if len(chosen) == 0 {
			sel = append(sel, tg)
			continue
		}
		for _, c := range chosen {
			if c == tg {
				sel = append(sel, tg)
				break
			}
		}
	}
	exp := -1 // unbounded
	if len(sel) == 0 {
		exp = 0
	} else {
		if limit != 0 {
			exp = int(limit)
		}
		if passes != 0 && (exp < 0 || int(passes)*len(sel) < exp) {
			exp = int(passes) * len(sel)
		}
	}
	if vKnown("C14-nothing-chosen") {
		// open findings: with no entry selected the streaming provider scans forever when passes = 0
		// and the preloaded one ends with ErrNoAmmo (see HarnessC14KnownNothingChosen*)
		vAssume(len(sel) != 0)
	}
	// open finding: the streaming decoder counts entries that chosencases filters out against
	// limit (see HarnessC14KnownLimitCountsFiltered). In that region only the streaming side is
	// excused; the preloaded provider is still compared with the reference.
	knownStream := vKnown("C14-limit-counts-filtered") && len(sel) < E && limit != 0
	maxItems := 1000
	if exp < 0 {
		maxItems = 2*len(sel) + 1
	}
	s := c08Drain(dec, file, limit, passes, false, chosen, maxItems)
	p := c08Drain(dec, file, limit, passes, true, chosen, maxItems)
	want := exp
	if exp < 0 {
		want = maxItems
	}
	vCheck("P4.preload.count.limit.counts.delivered", len(p.tags) == want)
	if !knownStream {
		vCheck("P4.stream.count.limit.counts.delivered", len(s.tags) == want)
		vCheck("P1.same.length", len(s.tags) == len(p.tags))
		for i := range s.tags {
			vCheck("P3.stream.selected.in.file.order", s.tags[i] == sel[i%len(sel)])
		}
	}
	for i := range p.tags {
		vCheck("P3.preload.selected.in.file.order", p.tags[i] == sel[i%len(sel)])
	}
	if exp >= 0 {
		vCheck("P2.stream.ends.ok", s.runErr == nil)
		vCheck("P2.preload.ends.ok", p.runErr == nil)
	}
	vCheck("P2.both.finish", s.done && p.done)
	vObserve("n", int64(len(s.tags)))
	vReach("end")
}

func HarnessC14Uri()     { c14Diff(config.DecoderURI) }
func HarnessC14Uripost() { c14Diff(config.DecoderURIPost) }
func HarnessC14Raw()     { c14Diff(config.DecoderRaw) }

// ---- the open findings, each on one fixed configuration ----

func HarnessC14KnownLimitCountsFiltered() {
	file := c08File(config.DecoderURI, 2) // tags t1, t2
	s := c08Drain(config.DecoderURI, file, 1, 0, false, []string{"t2"}, 100)
	p := c08Drain(config.DecoderURI, file, 1, 0, true, []string{"t2"}, 100)
	vCheck("K.limit.counts.delivered.entries", len(s.tags) == 1 && len(p.tags) == 1)
	vReach("end")
}

func HarnessC14KnownNothingChosen() {
	file := c08File(config.DecoderURI, 2)
	s := c08Drain(config.DecoderURI, file, 0, 1, false, []string{"t3"}, 100)
	p := c08Drain(config.DecoderURI, file, 0, 1, true, []string{"t3"}, 100)
	vCheck("K.nothing.chosen.same.ending", (s.runErr == nil) == (p.runErr == nil))
	vReach("end")
}

func HarnessC14KnownNothingChosenSpin() {
	vSpinIsViolation()
	file := c08File(config.DecoderURI, 2)
	s := c08Drain(config.DecoderURI, file, 0, 0, false, []string{"t3"}, 100)
	vCheck("K.nothing.chosen.terminates", s.done)
	vReach("end")
}

// ---- requests in flight: a pool with many instances holds every delivered entry at the same
// time (all are acquired, then all requests are built, then all bodies are read); the requests
// delivered with preload are those delivered without it.

// c14MW is a header-adding middleware like the documented header/date one.
type c14MW struct{}

func (c14MW) InitMiddleware(ctx context.Context, log *zap.Logger) error { return nil }
func (c14MW) UpdateRequest(req *http.Request) error {
	req.Header.Add("D", "now")
	return nil
}

func c14InFlight(raw bool, preload bool, passes uint) (out []string, runErr error) {
	file := "[H: v]\n1 /a t1\nx\n2 /b t2\nyz\n"
	conf := config.Config{Decoder: config.DecoderURIPost, Passes: passes, Preload: preload}
	if raw {
		one := func(p, tag, body string) string {
			req := "POST " + p + " HTTP/1.1\r\nHost: h\r\nH: v\r\nContent-Length: " + itoa(len(body)) + "\r\n\r\n" + body
			return itoa(len(req)) + " " + tag + "\n" + req
		}
		file = one("/a", "t1", "x") + "\n" + one("/b", "t2", "yz") + "\n"
		conf.Decoder = config.DecoderRaw
	}
	d, err := decoders.NewDecoder(conf, strings.NewReader(file))
	vCheck("D0.decoder.created", err == nil)
	p := &Provider{Config: conf, Decoder: d, Sink: make(chan decoders.DecodedAmmo)}
	p.Middlewares = []middleware.Middleware{c14MW{}}
	var wg sync.WaitGroup
	wg.Add(1)
	go func() {
		defer wg.Done()
		runErr = p.Run(context.Background(), core.ProviderDeps{Log: zap.NewNop()})
	}()
	var held []core.Ammo
	for {
		a, ok := p.Acquire()
		if !ok {
			break
		}
		held = append(held, a)
		if len(held) > 8 {
			break
		}
	}
	wg.Wait()
	// (Acquire has built the request of every held entry already)
	var reqs []*http.Request
	for _, a := range held {
		ga, isGun := a.(phttp.Ammo)
		vCheck("P1.request.built", isGun && !ga.IsInvalid())
		if !isGun {
			return
		}
		req, sample := ga.Request()
		reqs = append(reqs, req)
		out = append(out, req.Method+" "+req.URL.Path+" "+sample.Tags()+" ")
	}
	for i, req := range reqs {
		var body []byte
		if req.Body != nil {
			body, _ = io.ReadAll(req.Body)
		}
		out[i] += string(body) + " H=" + strings.Join(req.Header["H"], ",") + " D=" + strings.Join(req.Header["D"], ",")
	}
	for _, a := range held {
		p.Release(a)
	}
	return
}

func HarnessC14InFlight() {
	passes := uint(vConcretize(vNondetInt("passes", 1, 3)))
	raw := vNondetBool("raw") // uripost, or raw entries with a body (POST + Content-Length)
	s, serr := c14InFlight(raw, false, passes)
	p, perr := c14InFlight(raw, true, passes)
	one := []string{"POST /a t1 x H=v D=now", "POST /b t2 yz H=v D=now"}
	vCheck("P1.inflight.same.length", len(s) == len(p) && len(s) == 2*int(passes))
	for i := range s {
		vCheck("P1.inflight.stream.request", s[i] == one[i%2])
	}
	for i := range p {
		vCheck("P1.inflight.preload.request", p[i] == one[i%2])
	}
	vCheck("P2.inflight.end.same", (serr == nil) == (perr == nil))
	vObserve("n", int64(len(p)))
	vReach("end")
}

// ---- C14 with lines longer than the line reader's default limit (64 KiB) and the maxammosize
// option: whatever the option makes of such a line, streaming and preload make the same of it
// (same entries delivered, same ending), on every pass.
func c14DrainConf(conf config.Config, file string, maxItems int) c08Result {
	d, err := decoders.NewDecoder(conf, strings.NewReader(file))
	vCheck("D0.decoder.created", err == nil)
	p := &Provider{Config: conf, Decoder: d, Sink: make(chan decoders.DecodedAmmo)}
	ctx, cancel := context.WithCancel(context.Background())
	var res c08Result
	var wg sync.WaitGroup
	wg.Add(1)
	go func() {
		defer wg.Done()
		res.runErr = p.Run(ctx, core.ProviderDeps{Log: zap.NewNop()})
		res.done = true
	}()
	for {
		a, ok := <-p.Sink
		if !ok {
			break
		}
		res.tags = append(res.tags, a.Tag())
		if len(res.tags) >= maxItems {
			cancel()
			break
		}
	}
	wg.Wait()
	cancel()
	return res
}

func HarnessC14LongLines() {
	dec := []config.DecoderType{config.DecoderURI, config.DecoderURIPost}[vConcretize(vNondetInt("format", 0, 1))]
	long := 70000
	if !vNondetBool("overTheDefaultLimit") {
		long = 3000
	}
	maxSize := 0
	if vNondetBool("maxAmmoSizeSet") {
		maxSize = 200000
	}
	passes := uint(vConcretize(vNondetInt("passes", 1, 2)))
	path := "/" + strings.Repeat("a", long)
	file := "/a t1\n" + path + " t2\n"
	if dec == config.DecoderURIPost {
		file = "1 /a t1\nx\n0 " + path + " t2\n\n"
	}
	mk := func(preload bool) config.Config {
		return config.Config{Decoder: dec, Passes: passes, Preload: preload, MaxAmmoSize: maxSize}
	}
	s := c14DrainConf(mk(false), file, 100)
	p := c14DrainConf(mk(true), file, 100)
	vCheck("P2.long.same.ending", (s.runErr == nil) == (p.runErr == nil))
	if s.runErr == nil && p.runErr == nil {
		vCheck("P1.long.same.length", len(s.tags) == len(p.tags))
	} else {
		// a file that cannot be read fails the run either way; preload notices before the first
		// entry is handed out, streaming when it gets there: what preload delivered is a prefix
		vCheck("P1.long.failed.preload.delivers.no.more", len(p.tags) <= len(s.tags))
	}
	vCheck("P2.both.finish", s.done && p.done)
	if long <= 60000 {
		vCheck("P4.long.everything.delivered", len(s.tags) == 2*int(passes) && s.runErr == nil)
	}
	vObserve("n", int64(len(s.tags)))
	vObserve("np", int64(len(p.tags)))
	vReach("end")
}
