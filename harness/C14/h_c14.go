package provider

import (
	"github.com/yandex/pandora/components/providers/http/config"
)

// ---- C14: preload on/off deliver the same sequence and end the same way; chosencases selects
// exactly the listed tags (in file order) and limit counts delivered entries ----

func c14Diff(dec config.DecoderType) {
	vSpinIsViolation()
	E := int(vConcretize(vNondetInt("E", 2, 3)))
	limit := uint(vNondetInt("limit", 0, 3))
	passes := uint(vNondetInt("passes", 0, 3))
	var chosen []string
	for _, tg := range []string{"t1", "t2", "t3"} {
		if vNondetBool("choose_" + tg) {
			chosen = append(chosen, tg)
		}
	}
	file := c08File(dec, E)
	all := []string{"t1", "t2", "t1"}[:E]
	// reference: entries of one pass that are selected
	var sel []string
	for _, tg := range all {
		if len(chosen) == 0 {
			sel = append(sel, tg)
			continue
		}
		for _, c := range chosen {
			if c == tg {
				sel = append(sel, tg)
				break
			}
		}
	}
	exp := -1 // unbounded
	if len(sel) == 0 {
		exp = 0
	} else {
		if limit != 0 {
			exp = int(limit)
		}
		if passes != 0 && (exp < 0 || int(passes)*len(sel) < exp) {
			exp = int(passes) * len(sel)
		}
	}
	if vKnown("C14-nothing-chosen") {
		// open findings: with no entry selected the streaming provider scans forever when passes = 0
		// and the preloaded one ends with ErrNoAmmo (see HarnessC14KnownNothingChosen*)
		vAssume(len(sel) != 0)
	}
	// open finding: the streaming decoder counts entries that chosencases filters out against
	// limit (see HarnessC14KnownLimitCountsFiltered). In that region only the streaming side is
	// excused; the preloaded provider is still compared with the reference.
	knownStream := vKnown("C14-limit-counts-filtered") && len(sel) < E && limit != 0
	maxItems := 1000
	if exp < 0 {
		maxItems = 2*len(sel) + 1
	}
	s := c08Drain(dec, file, limit, passes, false, chosen, maxItems)
	p := c08Drain(dec, file, limit, passes, true, chosen, maxItems)
	want := exp
	if exp < 0 {
		want = maxItems
	}
	vCheck("P4.preload.count.limit.counts.delivered", len(p.tags) == want)
	if !knownStream {
		vCheck("P4.stream.count.limit.counts.delivered", len(s.tags) == want)
		vCheck("P1.same.length", len(s.tags) == len(p.tags))
		for i := range s.tags {
			vCheck("P3.stream.selected.in.file.order", s.tags[i] == sel[i%len(sel)])
		}
	}
	for i := range p.tags {
		vCheck("P3.preload.selected.in.file.order", p.tags[i] == sel[i%len(sel)])
	}
	if exp >= 0 {
		vCheck("P2.stream.ends.ok", s.runErr == nil)
		vCheck("P2.preload.ends.ok", p.runErr == nil)
	}
	vCheck("P2.both.finish", s.done && p.done)
	vObserve("n", int64(len(s.tags)))
	vReach("end")
}

func HarnessC14Uri()     { c14Diff(config.DecoderURI) }
func HarnessC14Uripost() { c14Diff(config.DecoderURIPost) }
func HarnessC14Raw()     { c14Diff(config.DecoderRaw) }

// ---- the open findings, each on one fixed configuration ----

func HarnessC14KnownLimitCountsFiltered() {
	file := c08File(config.DecoderURI, 2) // tags t1, t2
	s := c08Drain(config.DecoderURI, file, 1, 0, false, []string{"t2"}, 100)
	p := c08Drain(config.DecoderURI, file, 1, 0, true, []string{"t2"}, 100)
	vCheck("K.limit.counts.delivered.entries", len(s.tags) == 1 && len(p.tags) == 1)
	vReach("end")
}

func HarnessC14KnownNothingChosen() {
	file := c08File(config.DecoderURI, 2)
	s := c08Drain(config.DecoderURI, file, 0, 1, false, []string{"t3"}, 100)
	p := c08Drain(config.DecoderURI, file, 0, 1, true, []string{"t3"}, 100)
	vCheck("K.nothing.chosen.same.ending", (s.runErr == nil) == (p.runErr == nil))
	vReach("end")
}

func HarnessC14KnownNothingChosenSpin() {
	vSpinIsViolation()
	file := c08File(config.DecoderURI, 2)
	s := c08Drain(config.DecoderURI, file, 0, 0, false, []string{"t3"}, 100)
	vCheck("K.nothing.chosen.terminates", s.done)
	vReach("end")
}
