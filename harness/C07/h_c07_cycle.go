package provider

import (
	"context"
	"io"
	"net/http"
	"strings"
	"sync"

	"github.com/yandex/pandora/components/providers/http/config"
	"github.com/yandex/pandora/components/providers/http/decoders"
	"github.com/yandex/pandora/core"
	"github.com/yandex/pandora/core/aggregator/netsample"
	"go.uber.org/zap"
)

// ---- C07 at provider level, the way an instance uses it: Acquire (the request is built), shoot,
// Release, for every entry of every pass; all five file layouts, with and without preload. What an
// entry delivers on a later pass does not depend on the entries having been released before.
// (http/json through the model JSON decoder; the queued entities mirror decoders.entity.)

type cycEntity struct {
	Host    string            `json:"host"`
	Method  string            `json:"method"`
	URI     string            `json:"uri"`
	Headers map[string]string `json:"headers"`
	Tag     string            `json:"tag"`
	Body    string            `json:"body"`
}

type cycWant struct{ method, path, tag, body, hdr string }

func HarnessC07ProviderCycle() {
	format := vConcretize(vNondetInt("format", 0, 4)) // uri, uripost, raw, json array, json lines
	preload := vNondetBool("preload")
	passes := uint(vConcretize(vNondetInt("passes", 2, 3)))
	b1 := string(rune(vNondetInt("b", 'a', 'z')))
	b2 := string(rune(vNondetInt("b", 'a', 'z'))) + string(rune(vNondetInt("b", 'a', 'z')))
	var want []cycWant
	var file string
	dec := config.DecoderURI
	switch format {
	case 0:
		file = "[H: v]\n/a t1\n/b t2\n"
		want = []cycWant{{"GET", "/a", "t1", "", "v"}, {"GET", "/b", "t2", "", "v"}}
	case 1:
		dec = config.DecoderURIPost
		file = "[H: v]\n1 /a t1\n" + b1 + "\n2 /b t2\n" + b2 + "\n"
		want = []cycWant{{"POST", "/a", "t1", b1, "v"}, {"POST", "/b", "t2", b2, "v"}}
	case 2:
		dec = config.DecoderRaw
		one := func(p, tag, body string) string {
			req := "POST " + p + " HTTP/1.1\r\nHost: h\r\nH: v\r\nContent-Length: " + itoa(len(body)) + "\r\n\r\n" + body
			return itoa(len(req)) + " " + tag + "\n" + req
		}
		file = one("/a", "t1", b1) + "\n" + one("/b", "t2", b2) + "\n"
		want = []cycWant{{"POST", "/a", "t1", b1, "v"}, {"POST", "/b", "t2", b2, "v"}}
	default:
		dec = config.DecoderJSONLine
		ents := []cycEntity{
			{Host: "h", Method: "POST", URI: "/a", Tag: "t1", Body: b1, Headers: map[string]string{"H": "v"}},
			{Host: "h", Method: "POST", URI: "/b", Tag: "t2", Body: b2, Headers: map[string]string{"H": "v"}}}
		line := func(e cycEntity) string {
			return `{"host": "h", "method": "POST", "uri": "` + e.URI + `", "tag": "` + e.Tag + `", "headers": {"H": "v"}, "body": "` + e.Body + `"}`
		}
		array := format == 3
		vJSONArray(array)
		if array {
			vJSONQueue(ents)
			file = "[" + line(ents[0]) + ",\n" + line(ents[1]) + "]\n"
		} else {
			vJSONQueue(ents[0])
			vJSONQueue(ents[1])
			file = line(ents[0]) + "\n" + line(ents[1]) + "\n"
		}
		want = []cycWant{{"POST", "/a", "t1", b1, "v"}, {"POST", "/b", "t2", b2, "v"}}
	}
	conf := config.Config{Decoder: dec, Passes: passes, Preload: preload}
	d, err := decoders.NewDecoder(conf, strings.NewReader(file))
	vCheck("Y0.decoder.created", err == nil)
	if err != nil {
		return
	}
	p := &Provider{Config: conf, Decoder: d, Sink: make(chan decoders.DecodedAmmo)}
	var runErr error
	var wg sync.WaitGroup
	wg.Add(1)
	go func() {
		defer wg.Done()
		runErr = p.Run(context.Background(), core.ProviderDeps{Log: zap.NewNop()})
	}()
	n := 0
	for {
		a, ok := p.Acquire()
		if !ok {
			break
		}
		vCheck("Y1.not.too.many", n < 2*int(passes))
		if n >= 2*int(passes) {
			return
		}
		w := want[n%2]
		req, sample := a.(interface {
			Request() (*http.Request, *netsample.Sample)
		}).Request()
		vCheck("Y2.sample.tag.is.the.entrys", sample.Tags() == w.tag)
		vCheck("Y2.method", req.Method == w.method)
		vCheck("Y2.path", req.URL.Path == w.path)
		vCheck("Y2.header", req.Header.Get("H") == w.hdr)
		var got []byte
		if req.Body != nil {
			got, _ = io.ReadAll(req.Body)
		}
		vCheck("Y2.body", string(got) == w.body)
		p.Release(a) // the instance is done with this ammo
		n++
	}
	wg.Wait()
	vCheck("Y1.every.entry.every.pass", n == 2*int(passes))
	vCheck("Y3.run.ok", runErr == nil)
	vObserve("n", int64(n))
	vReach("end")
}
