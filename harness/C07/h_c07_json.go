package decoders

import (
	"context"
	"io"
	"strings"

	"github.com/yandex/pandora/components/providers/http/config"
)

// ---- C07 (+C08) for http/json: the JSON text itself is parsed by the real encoding/json only
// in the native replay; symbolically the decoder is a model that yields the entities the
// harness wrote (vJSONQueue), so what is checked is everything pandora does around it:
// array vs line form, request construction per entry, body/headers/tag/host, wrap-around ----

type c07JEnt struct {
	method, uri, host, tag, body string
	hdr                          string
}

func c07JSONText(es []c07JEnt, array bool) string {
	var parts []string
	for _, e := range es {
		s := `{"method": "` + e.method + `", "uri": "` + e.uri + `", "host": "` + e.host + `"`
		if e.tag != "" {
			// (an entry without tag has no "tag" key at all)
			s += `, "tag": "` + e.tag + `"`
		}
		if e.hdr != "" {
			s += `, "headers": {"H": "` + e.hdr + `"}`
		}
		if e.body != "" {
			s += `, "body": "` + e.body + `"`
		}
		parts = append(parts, s+"}")
	}
	if array {
		return "[" + strings.Join(parts, ",\n") + "]\n"
	}
	return strings.Join(parts, "\n") + "\n"
}

func c07JSON(array bool) {
	E := int(vConcretize(vNondetInt("E", 1, 3)))
	var es []c07JEnt
	var ents []entity
	for i := 0; i < E; i++ {
		e := c07JEnt{method: "GET", uri: "/" + c07Byte("u", 'a', 'z'), host: "h.example"}
		if vNondetBool("hasTag") {
			e.tag = c07Byte("t", 'a', 'z')
		}
		if vNondetBool("hasBody") {
			e.method = "POST"
			e.body = c07Byte("b", 'a', 'z') + c07Byte("b", 'a', 'z')
		}
		if vNondetBool("hasHdr") {
			e.hdr = c07Byte("h", 'a', 'z')
		}
		es = append(es, e)
		je := entity{Host: e.host, Method: e.method, URI: e.uri, Tag: e.tag, Body: e.body}
		if e.hdr != "" {
			je.Headers = map[string]string{"H": e.hdr}
		}
		ents = append(ents, je)
	}
	vJSONArray(array)
	if array {
		vJSONQueue(ents)
	} else {
		for _, je := range ents {
			vJSONQueue(je)
		}
	}
	passes := 2
	d, err := NewDecoder(config.Config{Decoder: config.DecoderJSONLine, Passes: uint(passes)}, strings.NewReader(c07JSONText(es, array)))
	vCheck("J0.decoder", err == nil)
	if err != nil {
		return
	}
	n := 0
	for {
		a, err := d.Scan(context.Background())
		if err != nil {
			vCheck("J1.ends.at.pass.limit", err == ErrPassLimit)
			break
		}
		vCheck("J1.not.too.many", n < passes*E)
		if n >= passes*E {
			return
		}
		w := es[n%E]
		req, berr := a.BuildRequest()
		vCheck("J2.request.builds", berr == nil)
		if berr != nil {
			return
		}
		vCheck("J2.method", req.Method == w.method)
		vCheck("J2.path", req.URL.Path == w.uri)
		vCheck("J2.host", req.Host == w.host)
		vCheck("J2.tag", a.Tag() == w.tag)
		vCheck("J2.header", req.Header.Get("H") == w.hdr)
		var got []byte
		if req.Body != nil {
			got, _ = io.ReadAll(req.Body)
		}
		vCheck("J2.body.bytes", string(got) == w.body)
		n++
	}
	vCheck("J1.every.entry.every.pass", n == passes*E)
	vObserve("n", int64(n))
	vReach("end")
}

func HarnessC07JSONArray() { c07JSON(true) }
func HarnessC07JSONLines() { c07JSON(false) }
