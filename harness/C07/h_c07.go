package decoders

import (
	"context"
	"io"
	"net/http"
	"strings"

	"github.com/yandex/pandora/components/providers/http/config"
)

// ---- C07: what the provider delivers equals what the file says, whatever the permitted layout ----

type c07Entry struct {
	uri    string
	tag    string
	body   string
	hdr    string // value of header H in effect for this entry ("" = none)
	host   string // value of an in-file [Host: v] line in effect ("" = none)
	method string // "" = the format's default
}

func c07Byte(name string, lo, hi byte) string {
	b := vNondetString(name, 1)
	vAssume(b[0] >= lo && b[0] <= hi)
	return b
}

// c07Tag: a tag as the formats allow it: one word, or words separated by one blank, two blanks or
// (thorough tier) a tab (everything after the URI belongs to the tag, verbatim)
func c07Tag(first bool) string {
	t := c07Byte("t", 'a', 'z')
	if !first {
		return t // (multi-word tags on the first entry only: keeps the number of layouts down)
	}
	switch vConcretize(vNondetInt("tagShape", 0, vHi(2, 3))) {
	case 1:
		t += " " + c07Byte("t2", 'a', 'z')
	case 2:
		t += "  " + c07Byte("t2", 'a', 'z')
	case 3:
		t += "\t" + c07Byte("t2", 'a', 'z')
	}
	return t
}

func c07Check(dec config.DecoderType, file string, want []c07Entry, passes int) {
	d, err := NewDecoder(config.Config{Decoder: dec, Passes: uint(passes)}, strings.NewReader(file))
	vCheck("F0.decoder", err == nil)
	if err != nil {
		return
	}
	// requests are built either right after each Scan (streaming), or only after everything has
	// been scanned (as the preloading provider does), or all of them are built first and their
	// bodies are read afterwards (several instances hold a built request at the same time)
	mode := vNondetInt("mode", 0, 2)
	deferBuild := mode >= 1
	inFlight := mode == 2
	var pending []DecodedAmmo
	n := 0
	readBody := func(req *http.Request) string {
		var got []byte
		if req.Body != nil {
			var rerr error
			got, rerr = io.ReadAll(req.Body)
			vCheck("F2.body.readable", rerr == nil)
		}
		return string(got)
	}
	build := func(a DecodedAmmo, k int) *http.Request {
		w := want[k%len(want)]
		req, berr := a.BuildRequest()
		vCheck("F2.request.builds", berr == nil)
		if berr != nil {
			return nil
		}
		vCheck("F2.tag", a.Tag() == w.tag)
		vCheck("F2.path", req.URL.Path == w.uri)
		vCheck("F2.header.in.effect", req.Header.Get("H") == w.hdr)
		vCheck("F2.host.in.effect", req.Host == w.host)
		switch {
		case w.method != "":
			vCheck("F2.method", req.Method == w.method)
		case dec == config.DecoderURIPost:
			vCheck("F2.method.post", req.Method == "POST")
		default:
			vCheck("F2.method.get", req.Method == "GET")
		}
		return req
	}
	hasBody := func(k int) bool {
		return dec == config.DecoderURIPost || want[k%len(want)].body != ""
	}
	verify := func(a DecodedAmmo, k int) bool {
		w := want[k%len(want)]
		req := build(a, k)
		if req == nil {
			return false
		}
		if hasBody(k) {
			vCheck("F2.body.bytes", readBody(req) == w.body)
			// the same decoded entry is built again on every later pass of a preloading provider
			req2, berr2 := a.BuildRequest()
			vCheck("F2.rebuild.ok", berr2 == nil)
			if berr2 == nil {
				vCheck("F2.body.bytes.on.rebuild", readBody(req2) == w.body)
			}
		}
		return true
	}
	for {
		a, err := d.Scan(context.Background())
		if err != nil {
			vCheck("F1.ends.at.pass.limit", err == ErrPassLimit)
			break
		}
		vCheck("F1.not.too.many", n < passes*len(want))
		if n >= passes*len(want) {
			return
		}
		if deferBuild {
			pending = append(pending, a)
		} else if !verify(a, n) {
			return
		}
		n++
	}
	if inFlight {
		reqs := make([]*http.Request, len(pending))
		for k, a := range pending {
			if reqs[k] = build(a, k); reqs[k] == nil {
				return
			}
		}
		for k, req := range reqs {
			if hasBody(k) {
				vCheck("F2.body.bytes.in.flight", readBody(req) == want[k%len(want)].body)
			}
		}
	} else {
		for k, a := range pending {
			if !verify(a, k) {
				return
			}
		}
	}
	vCheck("F1.every.entry.every.pass", n == passes*len(want))
	vObserve("n", int64(n))
	vReach("end")
}

func HarnessC07Uri() {
	E := int(vConcretize(vNondetInt("E", 1, vHi(2, 3))))
	var want []c07Entry
	file := ""
	if vNondetBool("blankFirst") {
		file += "\n"
	}
	hdr, host := "", ""
	for i := 0; i < E; i++ {
		if i == 1 && vNondetBool("hdrLine") {
			hv := c07Byte("hv", 'a', 'z')
			if vNondetBool("hostLine") {
				file += "[Host: " + hv + "]\n"
				host = hv
			} else {
				file += "[H: " + hv + "]\n"
				hdr = hv
			}
		}
		e := c07Entry{uri: "/" + c07Byte("u", 'a', 'z'), hdr: hdr, host: host}
		line := e.uri
		if vNondetBool("hasTag") {
			e.tag = c07Tag(i == 0)
			line += " " + e.tag
		}
		if vNondetBool("lead") {
			line = "  " + line
		}
		if vNondetBool("trail") {
			line += " \t"
		}
		file += line
		last := i == E-1
		if !last || vNondetBool("finalNewline") {
			file += "\n"
		}
		if !last && vNondetBool("blankBetween") {
			file += "\n"
		}
		want = append(want, e)
	}
	c07Check(config.DecoderURI, file, want, 3)
}

func HarnessC07Uripost() {
	E := int(vConcretize(vNondetInt("E", 1, 2)))
	var want []c07Entry
	file := ""
	if vNondetBool("blankFirst") {
		file += "\n"
	}
	hdr, host := "", ""
	for i := 0; i < E; i++ {
		if i == 1 && vNondetBool("hdrLine") {
			hv := c07Byte("hv", 'a', 'z')
			if vNondetBool("hostLine") {
				file += "[Host: " + hv + "]\n"
				host = hv
			} else {
				file += "[H: " + hv + "]\n"
				hdr = hv
			}
		}
		bl := int(vConcretize(vNondetInt("bodyLen", 0, 2)))
		e := c07Entry{uri: "/" + c07Byte("u", 'a', 'z'), hdr: hdr, host: host, body: vNondetString("b", bl)}
		line := string(rune('0'+bl)) + " " + e.uri
		if vNondetBool("hasTag") {
			e.tag = c07Tag(i == 0)
			line += " " + e.tag
		}
		file += line + "\n" + e.body
		last := i == E-1
		if bl == 0 {
			// an entry without body is its size line; the file may end without a final newline
			if last && !vNondetBool("finalNewline") {
				file = file[:len(file)-1]
			}
		} else if !last || vNondetBool("finalNewline") {
			file += "\n"
		}
		if !last && vNondetBool("blankBetween") {
			file += "\n"
		}
		want = append(want, e)
	}
	c07Check(config.DecoderURIPost, file, want, 3)
}

func HarnessC07Raw() {
	E := int(vConcretize(vNondetInt("E", 1, 2)))
	var want []c07Entry
	file := ""
	for i := 0; i < E; i++ {
		e := c07Entry{uri: "/" + c07Byte("u", 'a', 'z'), tag: c07Byte("t", 'a', 'z'), host: "h"}
		req := "GET " + e.uri + " HTTP/1.1\r\nHost: h\r\n\r\n"
		file += itoa09x(len(req)) + " " + e.tag + "\n" + req
		last := i == E-1
		if !last || vNondetBool("finalNewline") {
			file += "\n"
		}
		if !last && vNondetBool("blankBetween") {
			file += "\n"
		}
		want = append(want, e)
	}
	c07Check(config.DecoderRaw, file, want, 2)
}

// raw entries carrying a body (POST with Content-Length)
func HarnessC07RawBody() {
	E := 2
	var want []c07Entry
	file := ""
	for i := 0; i < E; i++ {
		bl := int(vConcretize(vNondetInt("bodyLen", 1, 2)))
		e := c07Entry{uri: "/" + c07Byte("u", 'a', 'z'), tag: c07Byte("t", 'a', 'z'), host: "h", method: "POST", body: vNondetString("b", bl)}
		req := "POST " + e.uri + " HTTP/1.1\r\nHost: h\r\nContent-Length: " + string(rune('0'+bl)) + "\r\n\r\n" + e.body
		file += itoa09x(len(req)) + " " + e.tag + "\n" + req + "\n"
		want = append(want, e)
	}
	c07Check(config.DecoderRaw, file, want, 1)
}

func itoa09x(n int) string {
	s := ""
	for n > 0 {
		s = string(rune('0'+n%10)) + s
		n /= 10
	}
	return s
}

// lines longer than the 4096-byte buffer of the line reader (a long query string, a long in-file
// header value) are delivered whole: URI, tag, header and body of the entry and the entry after it
func HarnessC07LongLines() {
	dec := []config.DecoderType{config.DecoderURI, config.DecoderURIPost}[vConcretize(vNondetInt("dec", 0, 1))]
	n := []int{100, 4090, 4096, 5000}[vConcretize(vNondetInt("n", 0, 3))]
	longHeader := vNondetBool("longHeader")
	q := strings.Repeat("q", n)
	uri := "/a?x=" + q
	hv := "v"
	if longHeader {
		hv = strings.Repeat("h", n)
	}
	file := "[H: " + hv + "]\n"
	if dec == config.DecoderURIPost {
		file += "1 " + uri + " tg\nx\n0 /b t2\n"
	} else {
		file += uri + " tg\n/b t2\n"
	}
	d, err := NewDecoder(config.Config{Decoder: dec, Passes: 2}, strings.NewReader(file))
	vCheck("L0.decoder", err == nil)
	if err != nil {
		return
	}
	for k := 0; k < 4; k++ {
		a, err := d.Scan(context.Background())
		vCheck("L1.entry.delivered", err == nil)
		if err != nil {
			return
		}
		req, berr := a.BuildRequest()
		vCheck("L1.request.builds", berr == nil)
		if berr != nil {
			return
		}
		if k%2 == 0 {
			vCheck("L2.long.uri.whole", req.URL.Path == "/a" && len(req.URL.RawQuery) == n+2)
			vCheck("L2.tag.after.long.uri", a.Tag() == "tg")
			if dec == config.DecoderURIPost {
				b, _ := io.ReadAll(req.Body)
				vCheck("L2.body.after.long.line", string(b) == "x")
			}
		} else {
			vCheck("L2.next.entry.intact", req.URL.Path == "/b" && a.Tag() == "t2")
		}
		vCheck("L2.long.header.whole", len(req.Header.Get("H")) == len(hv))
	}
	_, err = d.Scan(context.Background())
	vCheck("L1.ends.at.pass.limit", err == ErrPassLimit)
	vReach("end")
}
