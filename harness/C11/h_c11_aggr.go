package aggregator

import (
	"sync"

	"github.com/yandex/pandora/core"
)

type hS struct{ n int }

// Reporter.Report from two instances, including the drop path
func HarnessC11ReporterRaceFree() {
	r := NewReporter(ReporterConfig{SampleQueueSize: 1})
	vRaceBegin()
	var wg sync.WaitGroup
	wg.Add(2)
	go func() { defer wg.Done(); r.Report(core.Sample(&hS{1})); r.Report(core.Sample(&hS{2})) }()
	go func() { defer wg.Done(); r.Report(core.Sample(&hS{3})) }()
	wg.Wait()
	vRaceCheck("C11.no.race.reporter")
	got := len(r.Incomming)
	vCheck("C11.reporter.accounting", got == 1 && r.DroppedErr() != nil)
	vReach("end")
}
