package provider

import (
	"context"
	"strings"
	"sync"

	phttp "github.com/yandex/pandora/components/guns/http"
	"github.com/yandex/pandora/components/providers/http/config"
	"github.com/yandex/pandora/components/providers/http/decoders"
	"github.com/yandex/pandora/core"
	"go.uber.org/zap"
)

// ---- C11: the HTTP file provider and two instances: an ammo that has been handed to an instance
// is not touched by the provider any more (a header line further down the file belongs to the
// entries after it), and acquiring / building / releasing while the provider decodes is race free.
func HarnessC11HTTPProviderIsolation() {
	var dec config.DecoderType
	var file string
	if vNondetBool("uripost") {
		dec, file = config.DecoderURIPost, "1 /0\nx\n[H: v]\n1 /1\ny\n"
	} else {
		dec, file = config.DecoderURI, "/0\n[H: v]\n/1\n"
	}
	conf := config.Config{Decoder: dec, Passes: 1}
	if vNondetBool("confHeaders") {
		conf.Headers = []string{"[G: g]"}
	}
	d, err := decoders.NewDecoder(conf, strings.NewReader(file))
	vCheck("D0.decoder.created", err == nil)
	if err != nil {
		return
	}
	p := &Provider{Config: conf, Decoder: d, Sink: make(chan decoders.DecodedAmmo)}
	vRaceBegin()
	var wg sync.WaitGroup
	wg.Add(3)
	var runErr error
	go func() {
		defer wg.Done()
		runErr = p.Run(context.Background(), core.ProviderDeps{Log: zap.NewNop()})
	}()
	var mu sync.Mutex
	seen := map[string]string{}
	for i := 0; i < 2; i++ {
		go func() {
			defer wg.Done()
			a, ok := p.Acquire()
			if !ok {
				return
			}
			req, _ := a.(phttp.Ammo).Request()
			vYield()
			h := "-"
			for k, v := range req.Header { // what the gun sends
				if k == "H" && len(v) > 0 {
					h = v[0]
				}
			}
			mu.Lock()
			seen[req.URL.Path] = h
			mu.Unlock()
			p.Release(a)
		}()
	}
	wg.Wait()
	vRaceCheck("C11.no.race.http.provider")
	vCheck("C11.provider.ends.ok", runErr == nil)
	vCheck("C11.both.entries.delivered", len(seen) == 2)
	vCheck("C11.entry.before.header.line.untouched", seen["/0"] == "-")
	vCheck("C11.entry.after.header.line.has.it", seen["/1"] == "v")
	vReach("end")
}
