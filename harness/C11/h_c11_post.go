package postprocessor

import "sync"

// one header modifier is shared by all instances shooting the same scenario step
func HarnessC11SubstrShared() {
	p := &VarHeaderPostprocessor{}
	f, err := p.substr([]string{"1", "3"})
	vCheck("C11.substr.built", err == nil)
	vRaceBegin()
	var wg sync.WaitGroup
	wg.Add(2)
	var r1, r2 string
	go func() { defer wg.Done(); r1 = f("abcdef") }()
	go func() { defer wg.Done(); r2 = f("xy") }()
	wg.Wait()
	vRaceCheck("C11.no.race.substr.modifier")
	vCheck("C11.substr.results", r1 == "bc" && r2 == "y")
	vReach("end")
}
