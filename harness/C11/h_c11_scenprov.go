package http

import (
	"context"
	"sync"

	httpscenario "github.com/yandex/pandora/components/guns/http_scenario"
	"github.com/yandex/pandora/components/providers/scenario"
	"github.com/yandex/pandora/core"
	"go.uber.org/zap"
)

// ---- C11: the scenario provider hands every instance its own clone of the shared scenario
// definition: two instances acquiring at the same time do not race, get distinct ids, and the
// definition kept by the provider is never written to.
func HarnessC11ScenarioProviderAcquire() {
	base := &httpscenario.Scenario{Name: "sc", Requests: []httpscenario.Request{{Name: "r"}}}
	p := &scenario.Provider[*httpscenario.Scenario]{}
	p.SetConfig(scenario.ProviderConfig{Limit: 4})
	p.SetSink(make(chan *httpscenario.Scenario))
	p.SetAmmos([]*httpscenario.Scenario{base})
	vRaceBegin()
	var wg sync.WaitGroup
	wg.Add(3)
	go func() {
		defer wg.Done()
		_ = p.Run(context.Background(), core.ProviderDeps{Log: zap.NewNop()})
	}()
	var mu sync.Mutex
	var ids []uint64
	for c := 0; c < 2; c++ {
		go func() {
			defer wg.Done()
			for i := 0; i < 2; i++ {
				a, ok := p.Acquire()
				if !ok {
					return
				}
				sc := a.(*httpscenario.Scenario)
				vCheck("C11.instance.gets.a.clone", sc != base)
				mu.Lock()
				ids = append(ids, sc.ID)
				mu.Unlock()
			}
		}()
	}
	wg.Wait()
	vRaceCheck("C11.no.race.scenario.provider")
	vCheck("C11.all.acquired", len(ids) == 4)
	for i := range ids {
		for j := i + 1; j < len(ids); j++ {
			vCheck("C11.ids.distinct", ids[i] != ids[j])
		}
	}
	vCheck("C11.definition.not.written", base.ID == 0)
	vReach("end")
}
