package mp

import "sync"

// [rand] indexing from two instances sharing the iterator.
func HarnessC11NextIteratorRand() {
	it := NewNextIterator(1)
	vRaceBegin()
	var wg sync.WaitGroup
	wg.Add(2)
	go func() { defer wg.Done(); _ = it.Rand(5) }()
	go func() { defer wg.Done(); _ = it.Rand(5) }()
	wg.Wait()
	vRaceCheck("C11.no.race.iterator.rand")
	vReach("end")
}

func HarnessC11NextIteratorNext() {
	it := NewNextIterator(1)
	vRaceBegin()
	var wg sync.WaitGroup
	wg.Add(2)
	go func() { defer wg.Done(); _ = it.Next("s"); _ = it.Next("s") }()
	go func() { defer wg.Done(); _ = it.Next("s"); _ = it.Next("t") }()
	wg.Wait()
	vRaceCheck("C11.no.race.iterator.next")
	vReach("end")
}
