package schedule

import (
	"sync"
	"time"
)

// schedules shared by instances: no unsynchronised access
func HarnessC11SchedulesRaceFree() {
	kind := vConcretize(vNondetInt("kind", 0, 2))
	t0 := vNondetTime("t0")
	vSetClock(vTimeNs(t0))
	sch := NewComposite(NewOnce(1), NewConst(0, time.Second), NewOnce(1))
	switch kind {
	case 1:
		sch = NewOnce(2)
	case 2:
		sch = NewComposite(NewOnce(1), NewUnlimited(time.Second))
	}
	sch.Start(t0)
	vRaceBegin()
	var wg sync.WaitGroup
	wg.Add(2)
	go func() { defer wg.Done(); sch.Next(); sch.Left(); sch.Next() }()
	go func() { defer wg.Done(); sch.Left(); sch.Next(); sch.Next() }()
	wg.Wait()
	vRaceCheck("C11.no.race.schedules")
	vReach("end")
}
