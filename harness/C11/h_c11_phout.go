package netsample

import (
	"bufio"
	"context"
	"sync"

	"github.com/yandex/pandora/core"
	"go.uber.org/zap"
)

// ---- C11: the phout aggregator under two reporting instances and a sample queue that is full most
// of the time (size 1, each instance reports two samples in a row): everything an instance does in
// Report is ordered with the writer goroutine - line buffer and bufio.Writer belong to Run alone -,
// and every report is one whole line in the sink.

type pRec struct {
	newlines int
	bytes    int
}

func (r *pRec) Write(p []byte) (int, error) {
	for _, b := range p {
		if b == '\n' {
			r.newlines++
		}
	}
	r.bytes += len(p)
	return len(p), nil
}
func (r *pRec) Close() error { return nil }

func HarnessC11PhoutTwoReporters() {
	vFreezeClock()
	rec := &pRec{}
	a := &phoutAggregator{config: PhoutConfig{}, sink: make(chan *Sample, 1),
		writer: bufio.NewWriterSize(rec, 64), buf: make([]byte, 0, 1024), file: rec}
	ctx, cancel := context.WithCancel(context.Background())
	vRaceBegin()
	var wgRun, wg sync.WaitGroup
	wgRun.Add(1)
	go func() {
		defer wgRun.Done()
		_ = a.Run(ctx, core.AggregatorDeps{Log: zap.NewNop()})
	}()
	wg.Add(2)
	for i := 0; i < 2; i++ {
		go func() {
			defer wg.Done()
			for k := 0; k < 2; k++ {
				s := Acquire("t")
				s.SetProtoCode(200)
				a.Report(s)
			}
		}()
	}
	wg.Wait()
	cancel()
	wgRun.Wait()
	vRaceCheck("C11.no.race.phout.reporters")
	vCheck("C11.phout.one.line.per.report", rec.newlines == 4)
	vReach("end")
}
