package str

import "sync"

func HarnessC11RandStringRunes() {
	vRaceBegin()
	var wg sync.WaitGroup
	wg.Add(2)
	go func() { defer wg.Done(); _ = RandStringRunes(2, "ab") }()
	go func() { defer wg.Done(); _ = RandStringRunes(2, "ab") }()
	wg.Wait()
	vRaceCheck("C11.no.race.randstring")
	vReach("end")
}
