package scenario

import (
	"context"
	"sync"

	grpcgun "github.com/yandex/pandora/components/guns/grpc"
	"github.com/yandex/pandora/core"
	"go.uber.org/zap"
)

type hAggr struct {
	mu sync.Mutex
	n  int
}

func (a *hAggr) Report(core.Sample) {
	a.mu.Lock()
	a.n++
	a.mu.Unlock()
}
func (a *hAggr) Run(ctx context.Context, _ core.AggregatorDeps) error { return nil }

// Two instances (each with its own gun) shoot clones of one gRPC scenario ammo: the
// scenario definition (here: the call's metadata templates) must not be altered or raced on.
func HarnessC11GrpcScenarioMetadata() {
	ag := &hAggr{}
	mkGun := func() *Gun {
		return &Gun{templ: NewTextTemplater(), gun: &grpcgun.Gun{Aggr: ag,
			GunDeps: core.GunDeps{Ctx: context.Background(), Log: zap.NewNop()}}}
	}
	base := &Scenario{Name: "sc", Calls: []Call{{Name: "c", Tag: "t", Call: "no.such.Method",
		Metadata: map[string]string{"auth": "{{.source.token}}"}, Payload: []byte("{}")}}}
	g1, g2 := mkGun(), mkGun()
	a1 := base.Clone().(*Scenario)
	a2 := base.Clone().(*Scenario)
	vRaceBegin()
	var wg sync.WaitGroup
	wg.Add(2)
	go func() { defer wg.Done(); g1.Shoot(a1) }()
	go func() { defer wg.Done(); g2.Shoot(a2) }()
	wg.Wait()
	vRaceCheck("C11.no.race.on.shared.scenario")
	vCheck("C11.template.not.altered.by.a.shot", base.Calls[0].Metadata["auth"] == "{{.source.token}}")
	vReach("end")
}
