package postprocessor

import (
	"net/http"
	"sync"
)

// the var/header postprocessor of a scenario step is shared by all instances
func HarnessC11VarHeaderProcessShared() {
	p := &VarHeaderPostprocessor{Mapping: map[string]string{"tok": "X-Tok|lower|substr(0,2)"}}
	resp := func(v string) *http.Response {
		return &http.Response{StatusCode: 200, Header: http.Header{"X-Tok": []string{v}}}
	}
	vRaceBegin()
	var wg sync.WaitGroup
	wg.Add(2)
	var o1, o2 map[string]any
	go func() { defer wg.Done(); o1, _ = p.Process(resp("ABC"), nil); o1, _ = p.Process(resp("ABC"), nil) }()
	go func() { defer wg.Done(); o2, _ = p.Process(resp("XYZ"), nil) }()
	wg.Wait()
	vRaceCheck("C11.no.race.var.header.postprocessor")
	vCheck("C11.var.header.results", o1["tok"] == "ab" && o2["tok"] == "xy")
	vReach("end")
}
