package clientpool

import "sync"

// shared-client pool: Next() from concurrent instances is race free and hands out pool members
// only, round-robin (every member is used before any is used twice by the same number of draws)
func HarnessC11ClientPoolNext() {
	size := int(vConcretize(vNondetInt("size", 1, 3)))
	p, err := New[*int](size)
	vCheck("C11.pool.created", err == nil)
	members := make([]*int, size)
	for i := range members {
		members[i] = new(int)
		*members[i] = i
		p.Add(members[i])
	}
	vRaceBegin()
	var wg sync.WaitGroup
	counts := make([][]int, 2)
	for c := 0; c < 2; c++ {
		counts[c] = make([]int, size)
		wg.Add(1)
		go func(c int) {
			defer wg.Done()
			for i := 0; i < size; i++ {
				m := p.Next()
				vCheck("C11.pool.member", m != nil && *m >= 0 && *m < size)
				if m != nil {
					counts[c][*m]++
				}
			}
		}(c)
	}
	wg.Wait()
	vRaceCheck("C11.no.race.client.pool")
	// 2*size draws over size members: round robin uses each member exactly twice
	for i := 0; i < size; i++ {
		vCheck("C11.pool.round.robin", counts[0][i]+counts[1][i] == 2)
	}
	_, err0 := New[*int](0)
	vCheck("C11.pool.size.validated", err0 != nil)
	vReach("end")
}
