package engine

import (
	"context"
	stderrors "errors"
	"sync"
	"sync/atomic"
	"time"

	"github.com/pkg/errors"
	"github.com/yandex/pandora/core"
	"github.com/yandex/pandora/core/schedule"
	"github.com/yandex/pandora/core/warmup"
	"go.uber.org/zap"
)

// ---- C05: run outcome and termination of one pool under a symbolic fault plan ----

const (
	fNone = iota
	fProvider
	fAggregatorEarly
	fAggregatorLate
	fNewGun
	fBind
	fSchedule
	fWarmup
	fShotPanic
	fProviderOnStop
)

var errPlain = stderrors.New("injected component failure")

// a component that gave up waiting on its own (an HTTP client timeout wrapped on the way up, say):
// its error wraps context.DeadlineExceeded although the run context is alive and has no deadline
var errOwnTimeout = errors.Wrap(context.DeadlineExceeded, "component gave up waiting")

var errInjected = errPlain

type hWarmGun struct {
	hGun
	warmErr error
}

func (g *hWarmGun) WarmUp(_ *warmup.Options) (any, error) { return nil, g.warmErr }

type c05World struct {
	mu       sync.Mutex
	guns     []*hGun
	shots    int
	gunCalls int
	fired    bool // the injected fault actually happened
	instDone int  // instance.Run calls that returned (tracked through gun Close)
}

func c05Scenario(fault int, withCancel bool) {
	s := vConcretize(vNondetInt("startup", 1, 2))
	k := vConcretize(vNondetInt("rps", 0, 2))
	m := int(vConcretize(vNondetInt("ammo", 0, 2)))
	perInstance := vNondetBool("rpsPerInstance")
	w := &c05World{}
	prov := &hProvider{q: make(chan core.Ammo, 1), items: m, failAt: -1}
	aggr := &hAggregator{}
	errInjected = errPlain
	if (fault == fProvider || fault == fProviderOnStop || fault == fAggregatorEarly || fault == fAggregatorLate) && vNondetBool("ownTimeout") {
		errInjected = errOwnTimeout
	}
	switch fault {
	case fProvider:
		prov.runErr = errInjected
		prov.failAt = int(vConcretize(vNondetInt("failAt", 0, int64(m))))
	case fProviderOnStop:
		prov.runErr = errInjected
		prov.failOnStop = true
	case fAggregatorEarly:
		aggr.runErr = errInjected
		aggr.failEarly = true
	case fAggregatorLate:
		aggr.runErr = errInjected // e.g. "N samples were dropped", reported when Run ends
	}
	failGunAt := -1
	if fault == fNewGun || fault == fBind {
		failGunAt = int(vConcretize(vNondetInt("failGunAt", 0, 2))) // 0 = the warm-up gun
	}
	panicShot := 0
	if fault == fShotPanic {
		panicShot = 1
	}
	newGun := func() (core.Gun, error) {
		w.mu.Lock()
		defer w.mu.Unlock()
		idx := w.gunCalls
		w.gunCalls++
		if fault == fNewGun && idx == failGunAt {
			w.fired = true
			return nil, errInjected
		}
		g := &hGun{mu: &w.mu, shots: &w.shots, panicAt: panicShot}
		if fault == fBind && idx == failGunAt && idx > 0 {
			g.bindErr = errInjected
		}
		w.guns = append(w.guns, g)
		if idx == 0 {
			wg := &hWarmGun{hGun: *g}
			if fault == fWarmup {
				wg.warmErr = errInjected
			}
			return wg, nil
		}
		return g, nil
	}
	conf := InstancePoolConfig{
		ID: "p", Provider: prov, Aggregator: aggr, NewGun: newGun, RPSPerInstance: perInstance,
		NewRPSSchedule: func() (core.Schedule, error) {
			if fault == fSchedule {
				return nil, errInjected
			}
			return schedule.NewOnce(k), nil
		},
		StartupSchedule: schedule.NewOnce(s),
	}
	metrics := hMetrics()
	e := New(zap.NewNop(), metrics, Config{Pools: []InstancePoolConfig{conf}})
	ctx, cancel := context.WithCancel(context.Background())
	var cancelled atomic.Bool
	// happens-before analysis of every access from here on: what the components did (gun closed,
	// provider/aggregator returned) must be ordered before Run/Wait return - a clean-up that is
	// merely likely to be over by then shows up as an unordered write/read pair on any schedule
	vRaceBegin()
	if fault == fNone || fault == fAggregatorLate {
		aggr.metrics = &metrics
		aggr.callerCancel = &cancelled
	}
	var cwg sync.WaitGroup
	if withCancel {
		cwg.Add(1)
		go func() {
			defer cwg.Done()
			cancelled.Store(true)
			cancel()
		}()
	}
	err := e.Run(ctx)
	callerCancelledBeforeReturn := cancelled.Load()
	// E1: waiting for the engine's background tasks returns (a hang is a deadlock outcome)
	e.Wait()
	cwg.Wait()
	cancel()

	injectedFired := false
	switch fault {
	case fProvider:
		injectedFired = true // provider.Run returns the error once it reaches failAt (or at the end)
	case fAggregatorEarly, fAggregatorLate, fSchedule, fWarmup:
		injectedFired = true
	case fNewGun:
		injectedFired = w.fired
	case fBind:
		for _, g := range w.guns {
			if g.bindErr != nil && g.bound > 0 {
				injectedFired = true
			}
		}
	case fShotPanic:
		for _, g := range w.guns {
			if g.panicAt > 0 && g.n >= g.panicAt {
				injectedFired = true
			}
		}
	}
	if fault == fProvider || fault == fProviderOnStop {
		// the provider only fails if it got as far as failAt before being cancelled
		injectedFired = prov.failed
	}
	if err == nil && !callerCancelledBeforeReturn {
		// (a caller that cancelled at the very moment the run completed may get nil: its cancel
		// wins the race against a late component error; only uncancelled runs are judged here)
		vCheck("E2.success.only.without.failure", !injectedFired)
	}
	if injectedFired && !callerCancelledBeforeReturn {
		vCheck("E3.failure.reported", err != nil)
		if err != nil && fault != fShotPanic {
			vCheck("E3.failure.carries.cause", errors.Cause(err) == errInjected || stderrors.Is(err, errInjected))
		}
	}
	if !injectedFired && !callerCancelledBeforeReturn {
		vCheck("E2.no.failure.no.error", err == nil)
	}
	if err != nil && !injectedFired {
		vCheck("E4.cancel.error", err == context.Canceled)
	}
	// E5: everything stopped
	vCheck("E5.provider.stopped", prov.runDone || fault == fWarmup || fault == fSchedule || (fault == fNewGun && failGunAt == 0))
	vCheck("E5.aggregator.stopped", aggr.runDone || fault == fWarmup || fault == fSchedule || (fault == fNewGun && failGunAt == 0))
	for _, g := range w.guns {
		if g.bound > 0 && g.bindErr == nil {
			vCheck("E5.bound.gun.closed.once", g.closed == 1)
		}
	}
	vCheck("E5.instances.finished", metrics.InstanceStart.Get() == metrics.InstanceFinish.Get())
	vRaceCheck("E5.everything.stopped.before.wait.returns")
	vReach("end")
}

func provFailed(p *hProvider) bool { return p.failAt >= 0 && p.failAt <= p.items }

func HarnessC05NoFault()         { c05Scenario(fNone, false) }
func HarnessC05NoFaultCancel()   { c05Scenario(fNone, true) }
func HarnessC05Provider()        { c05Scenario(fProvider, false) }
func HarnessC05AggregatorEarly() { c05Scenario(fAggregatorEarly, false) }
func HarnessC05AggregatorLate()  { c05Scenario(fAggregatorLate, false) }
func HarnessC05NewGun()          { c05Scenario(fNewGun, false) }
func HarnessC05Bind()            { c05Scenario(fBind, false) }
func HarnessC05Schedule()        { c05Scenario(fSchedule, false) }
func HarnessC05Warmup()          { c05Scenario(fWarmup, false) }
func HarnessC05ShotPanic()       { c05Scenario(fShotPanic, false) }
func HarnessC05ProviderCancel()  { c05Scenario(fProvider, true) }

// the provider fails at the very end: only when it is told to stop, after every instance finished
func HarnessC05ProviderOnStop() { c05Scenario(fProviderOnStop, false) }

// Two pools: one fails while the other still has work and would run until cancelled. The run
// must report the failure, and the healthy pool must be stopped so that Engine.Wait returns.
func HarnessC05TwoPoolsOneFails() {
	w := &c05World{}
	failing := &hProvider{q: make(chan core.Ammo, 1), items: 0, failAt: 0, runErr: errInjected}
	healthy := &hProvider{q: make(chan core.Ammo, 1), items: 1 << 20, failAt: -1} // practically endless ammo
	aggrA, aggrB := &hAggregator{}, &hAggregator{}
	newGun := func() (core.Gun, error) {
		g := &hGun{mu: &w.mu, shots: &w.shots}
		w.mu.Lock()
		w.guns = append(w.guns, g)
		w.mu.Unlock()
		return g, nil
	}
	pool := func(id string, p core.Provider, a core.Aggregator, rps core.Schedule) InstancePoolConfig {
		return InstancePoolConfig{ID: id, Provider: p, Aggregator: a, NewGun: newGun,
			NewRPSSchedule:  func() (core.Schedule, error) { return rps, nil },
			StartupSchedule: schedule.NewOnce(1)}
	}
	metrics := hMetrics()
	// the healthy pool never runs out of schedule on its own: a pause that only a cancel ends
	longPause := schedule.NewComposite(schedule.NewConst(0, 100*365*24*time.Hour), schedule.NewOnce(1))
	e := New(zap.NewNop(), metrics, Config{Pools: []InstancePoolConfig{
		pool("bad", failing, aggrA, schedule.NewOnce(1)), pool("good", healthy, aggrB, longPause)}})
	vTimerLateMax(0)
	err := e.Run(context.Background())
	vCheck("E3.failure.reported", err != nil)
	if err != nil {
		vCheck("E3.failure.carries.cause", errors.Cause(err) == errInjected || stderrors.Is(err, errInjected))
	}
	e.Wait() // E1: must return, i.e. the healthy pool was stopped
	vCheck("E5.healthy.provider.stopped", healthy.runDone)
	vCheck("E5.healthy.aggregator.stopped", aggrB.runDone)
	vCheck("E5.instances.finished", metrics.InstanceStart.Get() == metrics.InstanceFinish.Get())
	vReach("end")
}
