package engine

import (
	"context"
	"sync"
	"time"

	"github.com/yandex/pandora/core"
	"github.com/yandex/pandora/core/schedule"
	"go.uber.org/zap"
)

// ---- C12: instance startup profile: ids, timing, count ----

type c12Gun struct {
	hGun
	w *c12World
}

type c12World struct {
	started    bool
	startClock int64
	offsets    []int64 // expected offset of the i-th startup token from the profile's start
	mu         sync.Mutex
	shots      int
	ids        []int
	tokTimes   []int64 // time of the i-th startup token
	calls      int
}

func (g *c12Gun) Bind(a core.Aggregator, deps core.GunDeps) error {
	g.w.mu.Lock()
	id := deps.InstanceID
	g.w.ids = append(g.w.ids, id)
	if id >= 0 && id < len(g.w.tokTimes) {
		vCheck("I2.not.before.its.startup.token", vClock() >= g.w.tokTimes[id])
	} else {
		vCheck("I1.id.has.a.token", false)
	}
	g.w.mu.Unlock()
	return g.hGun.Bind(a, deps)
}

type c12TokSched struct {
	core.Schedule
	w *c12World
}

func (s *c12TokSched) Next() (time.Time, bool) {
	if !s.w.started {
		// the startup profile starts with its first Next (the engine never calls Start on it)
		s.w.started = true
		s.w.startClock = vClock()
	}
	tx, ok := s.Schedule.Next()
	if ok {
		s.w.mu.Lock()
		i := len(s.w.tokTimes)
		if i < len(s.w.offsets) {
			vCheck("I6.token.not.before.its.profile.time", vTimeNs(tx) >= s.w.startClock+s.w.offsets[i])
		}
		s.w.tokTimes = append(s.w.tokTimes, vTimeNs(tx))
		s.w.mu.Unlock()
	}
	return tx, ok
}

func c12Scenario(profile int, cut int) {
	a := vConcretize(vNondetInt("a", 0, 2))
	b := vConcretize(vNondetInt("b", 0, 1))
	// (a + b may be 0: a startup profile that releases nothing starts nothing)
	d := time.Duration(vNondetInt("d", 1_000_000, 5_000_000_000))
	k := int64(1)
	w := &c12World{}
	var startup core.Schedule
	switch profile {
	case 0:
		startup = schedule.NewOnce(a + b)
	case 1:
		startup = schedule.NewComposite(schedule.NewOnce(a), schedule.NewConst(0, d), schedule.NewOnce(b))
	case 3:
		startup = schedule.NewComposite(schedule.NewConst(0, d), schedule.NewOnce(a+b))
	case 4:
		// nested list whose inner list ends with a pause: [[once a, hold d], once b]
		startup = schedule.NewComposite(schedule.NewComposite(schedule.NewOnce(a), schedule.NewConst(0, d)), schedule.NewOnce(b))
	default:
		startup = schedule.NewInstanceStep(a, a+b, 1, d)
	}
	T := int(a + b)
	for i := 0; i < T; i++ {
		off := int64(0)
		if profile == 3 || (profile != 0 && int64(i) >= a) {
			off = int64(d)
		}
		w.offsets = append(w.offsets, off)
	}
	items := T * int(k)
	perInstance := true
	switch cut {
	case 1: // ammo runs out: instance start may be cut short
		vAssume(T >= 1)
		items = int(vConcretize(vNondetInt("items", 0, int64(T)-1)))
	case 2: // shared RPS profile finishes: instance start may be cut short
		perInstance = false
	case 3: // shared RPS profile with pauses that outlasts the startup profile: nothing may cut it short
		perInstance = false
		items = T + 3
		vAssume(a >= 2 && b == 1)
	}
	vSetClock(1_500_000_000_000_000_000)
	vTimerLateMax(1_000_000_000)
	prov := &hProvider{q: make(chan core.Ammo, 1), items: items, failAt: -1}
	aggr := &hAggregator{}
	newGun := func() (core.Gun, error) {
		w.mu.Lock()
		defer w.mu.Unlock()
		w.calls++
		return &c12Gun{hGun: hGun{mu: &w.mu, shots: &w.shots}, w: w}, nil
	}
	conf := InstancePoolConfig{ID: "p", Provider: prov, Aggregator: aggr, NewGun: newGun, RPSPerInstance: perInstance,
		NewRPSSchedule: func() (core.Schedule, error) {
			if cut == 3 {
				// one token now, the last one long after the startup profile ended
				return schedule.NewComposite(schedule.NewOnce(1), schedule.NewConst(0, 100*d), schedule.NewOnce(1)), nil
			}
			return schedule.NewOnce(k), nil
		},
		StartupSchedule: &c12TokSched{Schedule: startup, w: w}}
	metrics := hMetrics()
	aggr.metrics = &metrics
	waitDone := 0
	p := newPool(zap.NewNop(), metrics, func() { waitDone++ }, conf)
	err := p.Run(context.Background())
	vCheck("I0.pool.ok", err == nil)
	// ids are exactly 0..n-1
	n := len(w.ids)
	seen := make([]bool, n)
	for _, id := range w.ids {
		vCheck("I1.id.in.range", id >= 0 && id < n)
		if id >= 0 && id < n {
			vCheck("I1.id.distinct", !seen[id])
			seen[id] = true
		}
	}
	vCheck("I2.never.more.than.released", n <= len(w.tokTimes))
	vCheck("I3.started.instances.ran", metrics.InstanceStart.Get() == int64(n))
	if cut == 0 {
		vCheck("I4.all.tokens.become.instances", n == T)
		vCheck("I5.every.instance.fired.its.profile", w.shots == T*int(k))
	} else if cut == 3 {
		vCheck("I4.all.tokens.become.instances.shared.rps.running", n == T)
	} else {
		vCheck("I4.at.most.profile", n <= T)
	}
	vObserve("n", int64(n))
	vReach("end")
}

func HarnessC12DelayedStart()       { c12Scenario(3, 0) }
func HarnessC12Once()               { c12Scenario(0, 0) }
func HarnessC12Composite()          { c12Scenario(1, 0) }
func HarnessC12InstanceStep()       { c12Scenario(2, 0) }
func HarnessC12CutByAmmo()          { c12Scenario(1, 1) }
func HarnessC12CutBySharedProfile() { c12Scenario(1, 2) }

// the same profiles with "lazy timers": a timer fires only when no goroutine has work left (firing
// earlier costs scheduling delays), so instances finish their own RPS profile while the startup
// profile is still waiting for its next token.
func HarnessC12Nested()           { c12Scenario(4, 0) }

// (not registered: with arbitrary clock jumps between readings the shared profile may legitimately
// finish before the startup profile, so the count is not determined; the schedule-level harness
// HarnessC02ConcTwoParts, part of this check, covers "a shared profile reports its end only when it
// has ended" instead)
func HarnessC12SharedRPSPauses() { c12Scenario(1, 3) }
func HarnessC12CompositeLazy()    { vLazyTimers(); c12Scenario(1, 0) }
func HarnessC12InstanceStepLazy() { vLazyTimers(); c12Scenario(2, 0) }
func HarnessC12DelayedStartLazy() { vLazyTimers(); c12Scenario(3, 0) }
