package coreutil

import (
	"context"
	"time"
)

type c04tSched struct {
	next time.Time
	ok   bool
	left int
}

func (s *c04tSched) Start(time.Time)         {}
func (s *c04tSched) Next() (time.Time, bool) { return s.next, s.ok }
func (s *c04tSched) Left() int               { return s.left }

const c04tBase = 1_500_000_000_000_000_000

func c04tb(b bool) int64 {
	if b {
		return 1
	}
	return 0
}

// ---- C04/C12: a waiter whose wait was cut short by cancellation (its timer still armed), then,
// after some time, another waiter (another pool, a later start): the second one waits for its own
// token - whatever timers the first one left behind. No waiter internals are touched.
func HarnessC04WaitAfterCancelledWait() {
	vSetClock(c04tBase)
	vSteadyClock() // clock readings do not drift apart; time passes through timers and the explicit gap only
	d1 := vNondetInt("d1", 1_000_000, 5_000_000)
	w1 := NewWaiter(&c04tSched{next: vTimeAt(c04tBase + d1), ok: true, left: -1})
	ctx1, cancel1 := context.WithCancel(context.Background())
	go cancel1() // the run (or instance start) is cancelled while the first waiter waits
	_ = w1.Wait(ctx1)
	cancel1()
	gap := vNondetInt("gap", 0, 20_000_000)
	vAdvanceClock(gap)
	if vNative() {
		time.Sleep(time.Duration(gap))
	}
	d2 := vNondetInt("d2", 2_000_000, 6_000_000)
	next2 := vClock() + d2
	w2 := NewWaiter(&c04tSched{next: vTimeAt(next2), ok: true, left: -1})
	begin := time.Now()
	ok := w2.Wait(context.Background())
	waited := time.Since(begin)
	vCheck("W1.wait.ok", ok)
	// (1 ms of slack for the native clock readings around the wait)
	vCheck("W1.no.early.shot.after.a.cancelled.wait", int64(waited) >= d2-1_000_000)
	vObserve("ok", c04tb(ok))
	vReach("end")
}
