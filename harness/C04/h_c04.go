package coreutil

import (
	"context"
	"time"
)

// ---- C04: Waiter.Wait / IsSlowDown as one inductive step from an arbitrary pre-state ----

type c04Sched struct {
	next time.Time
	ok   bool
	left int
}

func (s *c04Sched) Start(time.Time)         {}
func (s *c04Sched) Next() (time.Time, bool) { return s.next, s.ok }
func (s *c04Sched) Left() int               { return s.left }

const c04Base = 1_500_000_000_000_000_000

// c04Step: arbitrary waiter pre-state whose cached clock reading is a past reading of the
// (monotone) clock; arbitrary token time; one Wait + IsSlowDown.
func c04Step(withTimer bool) {
	c0 := vNondetInt("c0", c04Base, c04Base+3_600_000_000_000)
	lastNow := vNondetInt("lastNow", c04Base-3_600_000_000_000, c04Base+3_600_000_000_000)
	vAssume(lastNow <= c0)
	next := vNondetInt("next", c04Base-3_600_000_000_000, c04Base+3_600_010_000_000)
	vAssume(next <= c0+10_000_000) // a timer wait of at most 10ms (native replay really sleeps)
	ms := &c04Sched{next: vTimeAt(next), ok: true, left: -1}
	w := NewWaiter(ms)
	if vNondetBool("fresh") {
		// a waiter that never read the clock: lastNow is the zero Time
	} else {
		w.lastNow = vTimeAt(lastNow)
	}
	if withTimer {
		w.timer = time.NewTimer(1)
		<-w.timer.C
	}
	vSetClock(c0)
	vTimerLateMax(1_999_999_999) // assumption: a timer wakes its goroutine less than 2s late
	ctx := context.Background()
	ok := w.Wait(ctx)
	if vNative() && ok && vTimeNs(w.lastNow) < next {
		// the wait went through the timer: mirror the executor's clock (fires at/after deadline)
		c := vClock()
		if c < next {
			c = next
		}
		vSetClock(c + vNondetInt("late", 0, 0))
	}
	vCheck("W1.wait.ok", ok)
	now := vClock()
	vObserve("ok", c04b(ok))
	vCheck("W1.no.early.shot", now >= next)
	slow := w.IsSlowDown(ctx)
	late := now - next
	vCheck("W2.two.seconds.late.is.discarded", late < 2_000_000_000 || slow)
	vCheck("W2.less.than.two.seconds.late.is.fired", late >= 2_000_000_000 || !slow)
	vReach("end")
}

func c04b(b bool) int64 {
	if b {
		return 1
	}
	return 0
}

func HarnessC04WaitStepNoTimer() { c04Step(false) }
func HarnessC04WaitStepTimer()   { c04Step(true) }

// A finished schedule or a done context: no shot, nothing judged late.
func HarnessC04WaitNoToken() {
	c0 := vNondetInt("c0", c04Base, c04Base+3_600_000_000_000)
	next := vNondetInt("next", c04Base-3_600_000_000_000, c04Base+3_600_000_000_000)
	ms := &c04Sched{next: vTimeAt(next), ok: vNondetBool("tok"), left: 0}
	w := NewWaiter(ms)
	w.overdueDuration = time.Duration(vNondetInt("overdue", 0, 10_000_000_000))
	w.lastNow = vTimeAt(c0)
	vSetClock(c0)
	ctx, cancel := context.WithCancel(context.Background())
	cancelled := vNondetBool("cancelled")
	if cancelled {
		cancel()
	}
	vAssume(cancelled || !ms.ok)
	ok := w.Wait(ctx)
	vCheck("W1.no.token.no.shot", !ok)
	vCheck("W2.no.stale.overdue", !w.IsSlowDown(ctx))
	vCheck("W1.finished", w.IsFinished(ctx))
	cancel()
	vReach("end")
}
