package netsample

// ---- C06/F1: layout of one phout line (appendPhout / appendTimestamp) ----

// c06ParseCols splits line at tabs and returns, per column, its bytes.
func c06Split(line []byte) [][]byte {
	var cols [][]byte
	start := 0
	for i := 0; i < len(line); i++ {
		if line[i] == '\t' {
			cols = append(cols, line[start:i])
			start = i + 1
		}
	}
	return append(cols, line[start:])
}

// c06Dec: value of a decimal column and whether it is well formed (optional '-', digits).
func c06Dec(b []byte) (v int64, ok bool) {
	if len(b) == 0 {
		return 0, false
	}
	neg := false
	i := 0
	if b[0] == '-' {
		neg = true
		i = 1
		if len(b) == 1 {
			return 0, false
		}
	}
	for ; i < len(b); i++ {
		if b[i] < '0' || b[i] > '9' {
			return 0, false
		}
		v = v*10 + int64(b[i]-'0')
	}
	if neg {
		v = -v
	}
	return v, true
}

func c06Field(class int64, k int) int {
	switch class {
	case 0:
		return int(vNondetInt("f", 0, 9))
	case 1:
		return int(vNondetInt("f", 100, 999))
	case 2:
		return int(vNondetInt("f", 1_000_000_000, 9_999_999_999))
	case 3:
		return int(vNondetInt("f", -999, -100))
	case 4: // mixed by position
		if k%2 == 0 {
			return int(vNondetInt("f", 10, 99))
		}
		return int(vNondetInt("f", 10000, 99999))
	default:
		if k%3 == 0 {
			return int(vNondetInt("f", -9, -1))
		}
		return int(vNondetInt("f", 100000, 999999))
	}
}

func HarnessC06PhoutLine() {
	class := vConcretize(vNondetInt("class", 0, 5))
	s := &Sample{}
	s.timeStamp = vNondetTime("ts")
	tagLen := vConcretize(vNondetInt("taglen", 0, 3))
	tag := vNondetString("tag", int(tagLen))
	for i := 0; i < len(tag); i++ {
		vAssume(tag[i] != '\t' && tag[i] != '\n' && tag[i] != '\r' && tag[i] != '#')
	}
	s.tags = tag
	s.id = uint64(vNondetInt("id", 0, 1<<40))
	idOn := vNondetBool("idOn")
	for k := 0; k < fieldsNum; k++ {
		s.fields[k] = c06Field(class, k)
	}
	line := appendPhout(s, nil, idOn)
	for i := 0; i < len(line); i++ {
		vCheck("F1.no.newline", line[i] != '\n')
	}
	cols := c06Split(line)
	vCheck("F1.twelve.columns", len(cols) == 2+fieldsNum)
	if len(cols) != 2+fieldsNum {
		return
	}
	// column 0: <unix seconds>.<milliseconds, three digits>
	ts := cols[0]
	vCheck("F1.ts.len", len(ts) >= 5)
	if len(ts) < 5 {
		return
	}
	vCheck("F1.ts.dot", ts[len(ts)-4] == '.')
	secs, ok1 := c06Dec(ts[:len(ts)-4])
	ms, ok2 := c06Dec(ts[len(ts)-3:])
	vCheck("F1.ts.wellformed", ok1 && ok2)
	ns := vTimeNs(s.timeStamp)
	vCheck("F1.ts.seconds", secs == ns/1_000_000_000)
	vCheck("F1.ts.millis", ms == ns/1_000_000%1000)
	// column 1: tag, plus #id when ids are on
	c1 := cols[1]
	if idOn {
		vCheck("F1.tag.id.len", len(c1) > len(tag))
		if len(c1) <= len(tag) {
			return
		}
		vCheck("F1.tag.prefix", string(c1[:len(tag)]) == tag)
		vCheck("F1.tag.hash", c1[len(tag)] == '#')
		idv, okid := c06Dec(c1[len(tag)+1:])
		vCheck("F1.tag.id", okid && uint64(idv) == s.id)
	} else {
		vCheck("F1.tag.only", string(c1) == tag)
	}
	// columns 2..11: the ten fields in declaration order
	order := [fieldsNum]int{keyRTTMicro, keyConnectMicro, keySendMicro, keyLatencyMicro, keyReceiveMicro,
		keyIntervalEventMicro, keyRequestBytes, keyResponseBytes, keyErrno, keyProtoCode}
	for k := 0; k < fieldsNum; k++ {
		v, ok := c06Dec(cols[2+k])
		vCheck("F1.field.wellformed", ok)
		vCheck("F1.field.value", v == int64(s.fields[order[k]]))
	}
	vObserve("len", int64(len(line)))
	vReach("end")
}

// C04/W4: the discarded sample carries net code 777, tag "discarded", proto code 0.
// 0-2 samples of fired requests (any tag, codes, sizes, id) have been written and released to the
// sample pool before, as the phout aggregator does with every line it wrote: the discarded sample
// carries nothing of them.
func HarnessC04DiscardedSample() {
	recycled := int(vConcretize(vNondetInt("recycled", 0, 2)))
	for i := 0; i < recycled; i++ {
		old := Acquire([]string{"t", ""}[vConcretize(vNondetInt("oldtag", 0, 1))])
		old.SetID(uint64(vNondetInt("oldid", 0, 9)))
		old.SetProtoCode(int(vNondetInt("oldproto", 0, 599)))
		old.set(keyRequestBytes, int(vNondetInt("oldreq", 0, 99)))
		old.set(keyRTTMicro, int(vNondetInt("oldrtt", 0, 99)))
		if vNondetBool("olderr") {
			old.SetUserNet(int(vNondetInt("oldnet", 1, 999)))
		}
		releaseSample(old)
	}
	s := DiscardedShootSample()
	vCheck("W4.id.0", s.ID() == 0)
	for k := 0; k < fieldsNum; k++ {
		if k != keyErrno {
			vCheck("W4.other.fields.0", s.get(k) == 0)
		}
	}
	vCheck("W4.tag", s.Tags() == "discarded")
	vCheck("W4.net.777", s.get(keyErrno) == 777)
	vCheck("W4.proto.0", s.ProtoCode() == 0)
	line := appendPhout(s, nil, false)
	cols := c06Split(line)
	vCheck("W4.line.columns", len(cols) == 12)
	if len(cols) == 12 {
		n, ok := c06Dec(cols[10])
		vCheck("W4.line.net", ok && n == 777)
		vCheck("W4.line.tag", string(cols[1]) == "discarded")
	}
	vReach("end")
}
