package cli

import (
	"context"
	"fmt"
	"strings"
	"sync"

	"github.com/yandex/pandora/core"
	"github.com/yandex/pandora/core/engine"
	"github.com/yandex/pandora/core/schedule"
	"github.com/yandex/pandora/lib/monitoring"
	"go.uber.org/zap"
	"go.uber.org/zap/zapcore"
)

// ---- C06/F4: SIGINT/SIGTERM at any moment: results are flushed before the process exits ----

type sAmmo struct{}

type sProvider struct{ q chan core.Ammo }

func (p *sProvider) Acquire() (core.Ammo, bool) { a, ok := <-p.q; return a, ok }
func (p *sProvider) Release(core.Ammo)          {}
func (p *sProvider) Run(ctx context.Context, _ core.ProviderDeps) error {
	defer close(p.q)
	<-ctx.Done() // an endless ammo source that is never consumed faster than produced
	return nil
}

type sAggregator struct {
	mu      sync.Mutex
	flushed *bool
}

func (a *sAggregator) Report(core.Sample) {}
func (a *sAggregator) Run(ctx context.Context, _ core.AggregatorDeps) error {
	<-ctx.Done()
	vYield() // writing out the buffered results takes time
	a.mu.Lock()
	*a.flushed = true
	a.mu.Unlock()
	return nil
}

type sGun struct{}

func (sGun) Bind(core.Aggregator, core.GunDeps) error { return nil }
func (sGun) Shoot(core.Ammo)                          {}

func HarnessC06SignalShutdown() {
	sig := int(vConcretize(vNondetInt("sig", 0, 1))) // SIGINT or SIGTERM
	vSignal(sig)
	flushed := new(bool)
	aggr := &sAggregator{flushed: flushed}
	conf := engine.Config{Pools: []engine.InstancePoolConfig{{
		ID: "p", Provider: &sProvider{q: make(chan core.Ammo)}, Aggregator: aggr,
		NewGun:          func() (core.Gun, error) { return sGun{}, nil },
		NewRPSSchedule:  func() (core.Schedule, error) { return schedule.NewOnce(1), nil },
		StartupSchedule: schedule.NewOnce(1),
	}}}
	m := engine.Metrics{Request: &monitoring.Counter{}, Response: &monitoring.Counter{},
		InstanceStart: &monitoring.Counter{}, InstanceFinish: &monitoring.Counter{}}
	log := zap.NewNop().WithOptions(zap.WithFatalHook(zapcore.WriteThenPanic))
	pandora := engine.New(log, m, conf)
	ctx, cancel := context.WithCancel(context.Background())
	errs := make(chan error)
	go runEngine(ctx, pandora, errs)
	const allowed = "timeout exceeded|Another signal"
	vOnExit("F4.results.flushed.before.exit", flushed, allowed)
	defer func() {
		// native replay: Fatal panics instead of exiting, so the same condition can be evaluated
		if r := recover(); r != nil && vNative() {
			msg := fmt.Sprint(r)
			ok := false
			for _, a := range strings.Split(allowed, "|") {
				if strings.Contains(msg, a) {
					ok = true
				}
			}
			if !ok {
				aggr.mu.Lock()
				vCheck("F4.results.flushed.before.exit", *flushed)
				aggr.mu.Unlock()
			}
		}
	}()
	awaitPandoraTermination(pandora, cancel, errs, log)
	vReach("end")
}
