package netsample

import (
	"bufio"
	"context"
	"sync"

	"github.com/yandex/pandora/core"
	"go.uber.org/zap"
)

// ---- C06/F3: phout aggregator: every reported sample is one line in the sink after Run ----

type fRec struct {
	newlines int
	closed   int
	order    []string
}

func (r *fRec) Write(p []byte) (int, error) {
	for _, b := range p {
		if b == '\n' {
			r.newlines++
		}
	}
	r.order = append(r.order, "write")
	return len(p), nil
}
func (r *fRec) Close() error {
	r.closed++
	r.order = append(r.order, "close")
	return nil
}

func HarnessC06PhoutRun() {
	vFreezeClock() // timestamps are not the subject here (F1 covers the line layout)
	r := int(vConcretize(vNondetInt("reports", 0, 3)))
	q := int(vConcretize(vNondetInt("queue", 1, 2)))
	rec := &fRec{}
	a := &phoutAggregator{config: PhoutConfig{ID: vNondetBool("id")}, sink: make(chan *Sample, q),
		writer: bufio.NewWriterSize(rec, 64), buf: make([]byte, 0, 1024), file: rec}
	ctx, cancel := context.WithCancel(context.Background())
	var runErr error
	var wgRun sync.WaitGroup
	wgRun.Add(1)
	go func() {
		defer wgRun.Done()
		runErr = a.Run(ctx, core.AggregatorDeps{Log: zap.NewNop()})
	}()
	for i := 0; i < r; i++ {
		s := Acquire("t")
		s.SetProtoCode(200)
		a.Report(s)
	}
	cancel() // after the last Report returned
	wgRun.Wait()
	vCheck("F3.run.ok", runErr == nil)
	vCheck("F3.one.line.per.report", rec.newlines == r)
	vCheck("F3.closed.once", rec.closed == 1)
	if len(rec.order) > 0 {
		vCheck("F3.nothing.written.after.close", rec.order[len(rec.order)-1] == "close")
	}
	vObserve("lines", int64(rec.newlines))
	vReach("end")
}
