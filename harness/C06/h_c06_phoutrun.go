package netsample

import (
	"bufio"
	"context"
	"os"
	"strings"
	"sync"
	"time"

	"github.com/spf13/afero"
	"github.com/yandex/pandora/core"
	"go.uber.org/zap"
)

// ---- C06/F3: phout aggregator: every reported sample is one line in the sink after Run ----

type fRec struct {
	newlines int
	closed   int
	order    []string
}

func (r *fRec) Write(p []byte) (int, error) {
	for _, b := range p {
		if b == '\n' {
			r.newlines++
		}
	}
	r.order = append(r.order, "write")
	return len(p), nil
}
func (r *fRec) Close() error {
	r.closed++
	r.order = append(r.order, "close")
	return nil
}

func HarnessC06PhoutRun() {
	vFreezeClock() // timestamps are not the subject here (F1 covers the line layout)
	r := int(vConcretize(vNondetInt("reports", 0, 3)))
	q := int(vConcretize(vNondetInt("queue", 1, 2)))
	rec := &fRec{}
	a := &phoutAggregator{config: PhoutConfig{ID: vNondetBool("id")}, sink: make(chan *Sample, q),
		writer: bufio.NewWriterSize(rec, 64), buf: make([]byte, 0, 1024), file: rec}
	ctx, cancel := context.WithCancel(context.Background())
	var runErr error
	var wgRun sync.WaitGroup
	wgRun.Add(1)
	go func() {
		defer wgRun.Done()
		runErr = a.Run(ctx, core.AggregatorDeps{Log: zap.NewNop()})
	}()
	// a pause of more than a second in the flow of samples (the aggregator's idle flush comes due)
	// before report number gapAt, or before the end of the run
	gapAt := -1
	if vNondetBool("gap") {
		gapAt = int(vConcretize(vNondetInt("gapAt", 0, int64(r))))
	}
	for i := 0; i < r; i++ {
		if i == gapAt {
			time.Sleep(1100 * time.Millisecond)
		}
		s := Acquire("t")
		s.SetProtoCode(200)
		a.Report(s)
	}
	if gapAt == r {
		time.Sleep(1100 * time.Millisecond)
	}
	cancel() // after the last Report returned
	wgRun.Wait()
	vCheck("F3.run.ok", runErr == nil)
	vCheck("F3.one.line.per.report", rec.newlines == r)
	vCheck("F3.closed.once", rec.closed == 1)
	if len(rec.order) > 0 {
		vCheck("F3.nothing.written.after.close", rec.order[len(rec.order)-1] == "close")
	}
	vObserve("lines", int64(rec.newlines))
	vReach("end")
}

// ---- C06/F3 through the constructor: NewPhout with a destination file (created through the
// given file system) or without one (results go to the process's standard output). Symbolically the
// writes and the close of *os.File are harness stubs that record; natively os.Stdout is pointed at
// a temporary file which is read back.

var fStd fRec

func vStub___os_File__Write(f *os.File, p []byte) (int, error) { return fStd.Write(p) }
func vStub___os_File__Close(f *os.File) error                  { return fStd.Close() }

type fFile struct {
	afero.File
	fs  *fFs
	pos int
}

// (a file on a file system: what is written replaces the bytes at the write position and extends
// the file; bytes beyond what was written stay unless the file was truncated when it was opened)
func (f *fFile) Write(p []byte) (int, error) {
	for _, b := range p {
		if f.pos < len(f.fs.content) {
			f.fs.content[f.pos] = b
		} else {
			f.fs.content = append(f.fs.content, b)
		}
		f.pos++
	}
	return f.fs.rec.Write(p)
}
func (f *fFile) Close() error { return f.fs.rec.Close() }

type fFs struct {
	afero.Fs
	rec     *fRec
	created []string
	content []byte
}

func (fs *fFs) Create(name string) (afero.File, error) {
	fs.created = append(fs.created, name)
	fs.content = nil
	return &fFile{fs: fs}, nil
}
func (fs *fFs) OpenFile(name string, flag int, perm os.FileMode) (afero.File, error) {
	fs.created = append(fs.created, name)
	if flag&os.O_TRUNC != 0 {
		fs.content = nil
	}
	return &fFile{fs: fs}, nil
}

func HarnessC06PhoutConstructed() {
	vFreezeClock()
	r := int(vConcretize(vNondetInt("reports", 0, 3)))
	toStdout := vNondetBool("stdout")
	fStd = fRec{}
	rec := &fRec{}
	fs := &fFs{rec: rec}
	if vNondetBool("destinationExists") {
		// the result file of an earlier, longer run
		fs.content = []byte(strings.Repeat("0000000000.000\told\t1\t2\t3\t4\t5\t6\t7\t8\t0\t200\n", 8))
	}
	conf := DefaultPhoutConfig()
	conf.SampleQueueSize = 2
	conf.Buffer.BufferSize = 1 // (the minimal buffer: 4 KiB)
	conf.ID = vNondetBool("id")
	var tmp *os.File
	saved := os.Stdout
	if toStdout {
		if vNative() {
			var err error
			tmp, err = os.CreateTemp("", "c06stdout")
			if err != nil {
				panic(err)
			}
			os.Stdout = tmp
		}
		rec = &fStd
	} else {
		conf.Destination = "phout.log"
	}
	ag, err := NewPhout(fs, conf)
	os.Stdout = saved
	vCheck("F3.constructed", err == nil)
	if err != nil {
		return
	}
	if !toStdout {
		vCheck("F3.destination.created", len(fs.created) == 1 && fs.created[0] == "phout.log")
	}
	ctx, cancel := context.WithCancel(context.Background())
	var runErr error
	var wgRun sync.WaitGroup
	wgRun.Add(1)
	go func() {
		defer wgRun.Done()
		runErr = ag.Run(ctx, core.AggregatorDeps{Log: zap.NewNop()})
	}()
	for i := 0; i < r; i++ {
		s := Acquire("t")
		s.SetProtoCode(200)
		ag.Report(s)
	}
	cancel()
	wgRun.Wait()
	lines := rec.newlines
	if !toStdout {
		lines = strings.Count(string(fs.content), "\n") // what the result file holds after the run
	}
	if toStdout && vNative() {
		b, err := os.ReadFile(tmp.Name())
		if err != nil {
			panic(err)
		}
		lines = strings.Count(string(b), "\n")
		_ = os.Remove(tmp.Name())
	}
	vCheck("F3.run.ok", runErr == nil)
	vCheck("F3.one.line.per.report", lines == r)
	vObserve("lines", int64(lines))
	vReach("end")
}
