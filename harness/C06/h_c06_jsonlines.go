package aggregator

import (
	"bytes"
	"strings"

	"github.com/c2h5oh/datasize"
	"github.com/yandex/pandora/core/coreutil"
)

// ---- C06: jsonlines encoder: everything encoded is in the sink after the final Flush, one
// line per sample, whatever the sizes of the encoded values relative to the buffers.
// (jsoniter.Stream is a model: an append-only buffer in front of the writer; natively the
// real library encodes the samples, whose size the harness steers through a padding field.) ----

type fJSONSample struct {
	Pad string `json:"p"`
}

type fCountSink struct {
	bytes    int
	newlines int
}

func (s *fCountSink) Write(p []byte) (int, error) {
	s.bytes += len(p)
	s.newlines += bytes.Count(p, []byte{'\n'})
	return len(p), nil
}

func HarnessC06JSONLinesFlush() {
	n := int(vConcretize(vNondetInt("samples", 1, 3)))
	sink := &fCountSink{}
	bufSize := coreutil.MinimalBufferSize
	if vNondetBool("bigBuffer") {
		bufSize = 4 * coreutil.MinimalBufferSize
	}
	enc := NewJSONEncoder(sink, JSONLineEncoderConfig{BufferSizeConfig: coreutil.BufferSizeConfig{BufferSize: datasize.ByteSize(bufSize)}})
	total := 0
	for i := 0; i < n; i++ {
		// value sizes around the buffer boundaries
		cls := vConcretize(vNondetInt("sizeClass", 0, 3))
		sz := []int{16, coreutil.MinimalBufferSize - 1 - 16, coreutil.MinimalBufferSize + 5, 3*coreutil.MinimalBufferSize - 8}[cls]
		vJSONValueLen(sz)
		pad := sz - len(`{"p":""}`)
		err := enc.Encode(&fJSONSample{Pad: strings.Repeat("x", pad)})
		vCheck("F5.encode.ok", err == nil)
		total += sz + 1
	}
	err := enc.Flush() // what the aggregator does when it ends
	vCheck("F5.flush.ok", err == nil)
	vCheck("F5.one.line.per.sample.after.final.flush", sink.newlines == n)
	vCheck("F5.every.byte.in.the.sink", sink.bytes == total)
	vObserve("bytes", int64(sink.bytes))
	vReach("end")
}
