package aggregator

import (
	"context"
	"io"
	"sync"
	"time"

	"github.com/yandex/pandora/core"
	"go.uber.org/zap"
)

// ---- C06/F2: bounded-queue encoder aggregator: encoded + dropped = reported; flush/close order ----

type fSample struct{ n int }

type fSink struct {
	log    *[]string
	closed int
}

func (s *fSink) Write(p []byte) (int, error) { return len(p), nil }
func (s *fSink) Close() error {
	s.closed++
	*s.log = append(*s.log, "sink.Close")
	return nil
}

type fDataSink struct{ s *fSink }

func (d fDataSink) OpenSink() (io.WriteCloser, error) { return d.s, nil }

type fEncoder struct {
	log     *[]string
	encoded int
	closer  bool
}

func (e *fEncoder) Encode(s core.Sample) error { e.encoded++; return nil }
func (e *fEncoder) Flush() error               { *e.log = append(*e.log, "enc.Flush"); return nil }

type fEncCloser struct{ fEncoder }

func (e *fEncCloser) Close() error { *e.log = append(*e.log, "enc.Close"); return nil }

func HarnessC06EncoderAggregator() {
	r := int(vConcretize(vNondetInt("reports", 0, 3)))
	q := int(vConcretize(vNondetInt("queue", 1, 2)))
	producers := int(vConcretize(vNondetInt("producers", 1, 2)))
	withCloser := vNondetBool("encoderCloser")
	flushOn := vNondetBool("flushInterval")
	var log []string
	sink := &fSink{log: &log}
	enc := &fEncoder{log: &log}
	encC := &fEncCloser{fEncoder{log: &log}}
	conf := EncoderAggregatorConfig{Sink: fDataSink{sink}, ReporterConfig: ReporterConfig{SampleQueueSize: q}}
	if flushOn {
		conf.FlushInterval = time.Second
	}
	ag := NewEncoderAggregator(func(w io.Writer, onFlush func()) SampleEncoder {
		if withCloser {
			return encC
		}
		return enc
	}, conf)
	ctx, cancel := context.WithCancel(context.Background())
	var runErr error
	var wgRun sync.WaitGroup
	wgRun.Add(1)
	go func() {
		defer wgRun.Done()
		runErr = ag.Run(ctx, core.AggregatorDeps{Log: zap.NewNop()})
	}()
	var wg sync.WaitGroup
	for p := 0; p < producers; p++ {
		wg.Add(1)
		go func(p int) {
			defer wg.Done()
			for i := p; i < r; i += producers {
				ag.Report(&fSample{i})
			}
		}(p)
	}
	wg.Wait() // every Report returned (the engine cancels the aggregator only after that)
	cancel()
	wgRun.Wait()
	encoded := enc.encoded + encC.encoded
	dropped := 0
	if d, ok := runErr.(*SomeSamplesDropped); ok {
		dropped = int(d.Dropped)
	} else {
		vCheck("F2.only.dropped.error", runErr == nil)
	}
	vCheck("F2.encoded.plus.dropped.equals.reported", encoded+dropped == r)
	vCheck("F2.sink.closed.once", sink.closed == 1)
	n := len(log)
	vCheck("F2.final.flush.or.close", n >= 2)
	if n >= 2 {
		if withCloser {
			vCheck("F2.encoder.closed.before.sink", log[n-2] == "enc.Close" && log[n-1] == "sink.Close")
		} else {
			vCheck("F2.encoder.flushed.before.sink", log[n-2] == "enc.Flush" && log[n-1] == "sink.Close")
		}
	}
	// (how many samples were encoded rather than dropped depends on the interleaving: the
	// schedule-independent sum is what the native run must agree on)
	vObserve("encoded.plus.dropped", int64(encoded+dropped))
	vReach("end")
}
