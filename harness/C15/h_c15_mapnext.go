package mp

// X5: [next] counters are per data source path: two sources whose last path element has the
// same name still hand out consecutive rows each.
func HarnessC15NextPerSource() {
	data := map[string]any{"source": map[string]any{
		"users": map[string]any{"items": []any{"u0", "u1", "u2"}},
		"goods": map[string]any{"items": []any{"g0", "g1", "g2"}},
	}}
	it := NewNextIterator(1)
	firstUsers := vNondetBool("usersFirst")
	seq := []string{".source.users.items[next]", ".source.goods.items[next]"}
	if !firstUsers {
		seq[0], seq[1] = seq[1], seq[0]
	}
	want := map[string][]string{".source.users.items[next]": {"u0", "u1", "u2", "u0"}, ".source.goods.items[next]": {"g0", "g1", "g2", "g0"}}
	n := int(vConcretize(vNondetInt("rounds", 1, 4)))
	for r := 0; r < n; r++ {
		for _, p := range seq {
			v, err := GetMapValue(data, p, it)
			vCheck("X5.lookup.ok", err == nil)
			s, _ := v.(string)
			vCheck("X5.consecutive.rows.per.source", s == want[p][r])
		}
	}
	vObserve("rounds", int64(n))
	vReach("end")
}
