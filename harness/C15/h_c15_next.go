package mp

import "sync"

// X5: [next] hands out consecutive indices per segment across concurrent callers.
func HarnessC15NextIterator() {
	it := NewNextIterator(1)
	var wg sync.WaitGroup
	res := make([][]int, 3)
	for c := 0; c < 3; c++ {
		res[c] = make([]int, 2)
		wg.Add(1)
		go func(c int) {
			defer wg.Done()
			for i := 0; i < 2; i++ {
				res[c][i] = it.Next("seg")
			}
		}(c)
	}
	wg.Wait()
	seen := make([]bool, 6)
	for c := 0; c < 3; c++ {
		vCheck("X5.per.caller.increasing", res[c][0] < res[c][1])
		for i := 0; i < 2; i++ {
			v := res[c][i]
			vCheck("X5.no.gap", v >= 0 && v < 6)
			if v >= 0 && v < 6 {
				vCheck("X5.no.duplicate", !seen[v])
				seen[v] = true
			}
		}
	}
	vCheck("X5.other.segment.independent", it.Next("other") == 0)
	vReach("end")
}
