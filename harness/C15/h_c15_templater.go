package templater

import (
	gun "github.com/yandex/pandora/components/guns/http_scenario"
)

// ---- C15: what the text templater rendered for one step stays what it is while later steps
// (of this or another instance) are rendered: URL, headers and body of an earlier request are not
// backed by storage that a later Apply reuses.
func HarnessC15TemplaterRenderIsolated() {
	t := NewTextTemplater()
	withBody := vNondetBool("secondHasBody")
	p1 := &gun.RequestParts{URL: "/first", Method: "POST", Headers: map[string]string{"H": "one"}, Body: []byte("body-of-first")}
	err1 := t.Apply(p1, map[string]any{}, "sc", "s1")
	vCheck("T1.apply.ok", err1 == nil)
	url1, h1, b1 := p1.URL, p1.Headers["H"], string(p1.Body)
	p2 := &gun.RequestParts{URL: "/second", Method: "POST", Headers: map[string]string{"H": "two"}}
	if withBody {
		p2.Body = []byte("BODY-OF-SECOND!!")
	}
	err2 := t.Apply(p2, map[string]any{}, "sc", "s2")
	vCheck("T1.apply.ok", err2 == nil)
	vCheck("T2.earlier.url.unchanged", p1.URL == url1)
	vCheck("T2.earlier.header.unchanged", p1.Headers["H"] == h1)
	vCheck("T2.earlier.body.unchanged", string(p1.Body) == b1)
	// action-free templates render as their text
	vCheck("T3.plain.text.rendered.as.is", url1 == "/first" && h1 == "one" && b1 == "body-of-first")
	vObserve("len", int64(len(p1.Body)))
	vReach("end")
}

// ---- C15/C09: every step is rendered from its own templates. Two steps of (possibly different)
// scenarios whose names contain '_' (so that joined names may coincide), headers that are called
// like a request part ("url", "body"); text and html templater; each step rendered twice (the second
// time from the template cache).
func HarnessC15TemplaterOwnTemplates() {
	var t Templater = NewTextTemplater()
	if vNondetBool("html") {
		t = NewHTMLTemplater()
	}
	names := [][4]string{{"a_b", "c", "a", "b_c"}, {"s", "c", "s", "d"}, {"s", "c", "t", "c"}}[vConcretize(vNondetInt("names", 0, 2))]
	hdr := []string{"H", "url", "body"}[vConcretize(vNondetInt("hdr", 0, 2))]
	u1, u2 := "/"+string(rune(vNondetInt("u", 'a', 'z'))), "/"+string(rune(vNondetInt("u", 'a', 'z')))
	h1, h2 := "v"+string(rune(vNondetInt("h", 'a', 'z'))), "w"+string(rune(vNondetInt("h", 'a', 'z')))
	b1, b2 := "b"+string(rune(vNondetInt("b", 'a', 'z'))), "c"+string(rune(vNondetInt("b", 'a', 'z')))
	for round := 0; round < 2; round++ {
		p1 := &gun.RequestParts{URL: u1, Method: "POST", Headers: map[string]string{hdr: h1}, Body: []byte(b1)}
		p2 := &gun.RequestParts{URL: u2, Method: "POST", Headers: map[string]string{hdr: h2}, Body: []byte(b2)}
		err1 := t.Apply(p1, map[string]any{}, names[0], names[1])
		err2 := t.Apply(p2, map[string]any{}, names[2], names[3])
		vCheck("T4.apply.ok", err1 == nil && err2 == nil)
		if err1 != nil || err2 != nil {
			return
		}
		vCheck("T4.url.from.own.template", p1.URL == u1 && p2.URL == u2)
		vCheck("T4.header.from.own.template", p1.Headers[hdr] == h1 && p2.Headers[hdr] == h2)
		vCheck("T4.body.from.own.template", string(p1.Body) == b1 && string(p2.Body) == b2)
	}
	vObserve("len", int64(len(u1)))
	vReach("end")
}

// ---- C13: a scenario whose template does not parse (an action that is never closed, in the URL, a
// header or the body) is rejected every time it is used - by the first shot and by every later one
// (second ammo, second pass, another instance) - and never crashes; its well-formed neighbours render.
func HarnessC13MalformedTemplate() {
	var t Templater = NewTextTemplater()
	if vNondetBool("html") {
		t = NewHTMLTemplater()
	}
	part := vConcretize(vNondetInt("part", 0, 2))
	bad := []string{"{{.endpoint", "{{.name}", "x{{ .request."}[vConcretize(vNondetInt("bad", 0, 2))]
	mk := func() *gun.RequestParts {
		p := &gun.RequestParts{URL: "/u", Method: "POST", Headers: map[string]string{"H": "v"}, Body: []byte("b")}
		switch part {
		case 0:
			p.URL = bad
		case 1:
			p.Headers["H"] = bad
		default:
			p.Body = []byte(bad)
		}
		return p
	}
	for round := 0; round < 3; round++ {
		err := t.Apply(mk(), map[string]any{}, "sc", "broken") // implicit: never panics
		vCheck("M8.malformed.template.rejected.every.time", err != nil)
		good := &gun.RequestParts{URL: "/ok", Method: "GET", Headers: map[string]string{"H": "w"}}
		vCheck("M8.neighbour.renders", t.Apply(good, map[string]any{}, "sc", "fine") == nil && good.URL == "/ok")
	}
	vReach("end")
}
