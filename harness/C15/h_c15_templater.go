package templater

import (
	gun "github.com/yandex/pandora/components/guns/http_scenario"
)

// ---- C15: what the text templater rendered for one step stays what it is while later steps
// (of this or another instance) are rendered: URL, headers and body of an earlier request are not
// backed by storage that a later Apply reuses.
func HarnessC15TemplaterRenderIsolated() {
	t := NewTextTemplater()
	withBody := vNondetBool("secondHasBody")
	p1 := &gun.RequestParts{URL: "/first", Method: "POST", Headers: map[string]string{"H": "one"}, Body: []byte("body-of-first")}
	err1 := t.Apply(p1, map[string]any{}, "sc", "s1")
	vCheck("T1.apply.ok", err1 == nil)
	url1, h1, b1 := p1.URL, p1.Headers["H"], string(p1.Body)
	p2 := &gun.RequestParts{URL: "/second", Method: "POST", Headers: map[string]string{"H": "two"}}
	if withBody {
		p2.Body = []byte("BODY-OF-SECOND!!")
	}
	err2 := t.Apply(p2, map[string]any{}, "sc", "s2")
	vCheck("T1.apply.ok", err2 == nil)
	vCheck("T2.earlier.url.unchanged", p1.URL == url1)
	vCheck("T2.earlier.header.unchanged", p1.Headers["H"] == h1)
	vCheck("T2.earlier.body.unchanged", string(p1.Body) == b1)
	// action-free templates render as their text
	vCheck("T3.plain.text.rendered.as.is", url1 == "/first" && h1 == "one" && b1 == "body-of-first")
	vObserve("len", int64(len(p1.Body)))
	vReach("end")
}
