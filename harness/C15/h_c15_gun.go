package httpscenario

import (
	"context"
	"errors"
	"io"
	"net/http"
	"strings"

	phttp "github.com/yandex/pandora/components/guns/http"
	"github.com/yandex/pandora/core"
	"github.com/yandex/pandora/core/aggregator/netsample"
	"go.uber.org/zap"
)

// ---- C15/X1,X2 (+ C10/G5, C19/R1): one scenario shot against model steps ----

type xClient struct {
	failAt    int // Do fails on this call (0-based), -1 never
	calls     []string
	status    int
	body      string
	bodyErrAt int // the body of this call's response breaks off with a read error, -1 never
	declared  int64 // the Content-Length the target declares (it need not be true)
}

// xBrokenBody delivers its data, then fails (connection reset while the body is being read).
type xBrokenBody struct {
	data string
	off  int
}

func (b *xBrokenBody) Read(p []byte) (int, error) {
	if b.off < len(b.data) {
		n := copy(p, b.data[b.off:])
		b.off += n
		return n, nil
	}
	return 0, errors.New("read: connection reset by peer")
}
func (b *xBrokenBody) Close() error { return nil }

func (c *xClient) Do(req *http.Request) (*http.Response, error) {
	i := len(c.calls)
	c.calls = append(c.calls, req.URL.Path)
	if i == c.failAt {
		return nil, errors.New("connection reset")
	}
	if i == c.bodyErrAt {
		return &http.Response{StatusCode: c.status, Header: http.Header{"X-Tok": []string{"v"}}, Body: &xBrokenBody{data: c.body}, Request: req, ProtoMajor: 1, ProtoMinor: 1, ContentLength: c.declared}, nil
	}
	return &http.Response{StatusCode: c.status, Header: http.Header{"X-Tok": []string{"v"}}, Body: io.NopCloser(strings.NewReader(c.body)), Request: req, ProtoMajor: 1, ProtoMinor: 1, ContentLength: c.declared}, nil
}
func (c *xClient) CloseIdleConnections() {}

type xAggr struct {
	samples []*netsample.Sample
}

func (a *xAggr) Report(s *netsample.Sample)                           { a.samples = append(a.samples, s) }
func (a *xAggr) Run(ctx context.Context, _ core.AggregatorDeps) error { return nil }

type xTemplater struct {
	failAt string
	seen   map[string]map[string]any // step -> snapshot of what the templater could see
	order  []string
}

func (t *xTemplater) Apply(parts *RequestParts, vars map[string]any, scenario, step string) error {
	t.order = append(t.order, step)
	snap := map[string]any{}
	if src, ok := vars["source"].(map[string]any); ok {
		snap["source.k"] = src["k"]
	}
	if reqs, ok := vars["request"].(map[string]any); ok {
		for name, sv := range reqs {
			if m, ok := sv.(map[string]any); ok {
				if post, ok := m["postprocessor"].(map[string]any); ok {
					snap[name+".post"] = post["tok"]
				}
				if pre, ok := m["preprocessor"].(map[string]any); ok {
					snap[name+".pre"] = pre["p"]
				}
			}
		}
	}
	t.seen[step] = snap
	if step == t.failAt {
		return errors.New("template error")
	}
	return nil
}

type xPre struct{ fail bool }

func (p *xPre) Process(vars map[string]any) (map[string]any, error) {
	if p.fail {
		return nil, errors.New("preprocessor error")
	}
	return map[string]any{"p": "pv"}, nil
}

type xPost struct {
	fail bool
	val  string
}

func (p *xPost) Process(resp *http.Response, body io.Reader) (map[string]any, error) {
	if body != nil {
		// like the body-reading postprocessors (assert/response, var/jsonpath, var/xpath)
		if _, err := io.ReadAll(body); err != nil {
			return nil, err
		}
	}
	if p.fail {
		return nil, errors.New("assertion failed")
	}
	return map[string]any{"tok": p.val}, nil
}

type xStorage struct{}

func (xStorage) Variables() map[string]any { return map[string]any{"k": "srcval"} }

// DumpRequestOut (answlog) drives a private transport over an in-memory pipe: environment, stubbed
// symbolically (the native replay runs the real one)
func vStub_net_http_httputil_DumpRequestOut(req *http.Request, body bool) ([]byte, error) {
	return []byte("GET / HTTP/1.1\r\n\r\n"), nil
}

func HarnessC15ScenarioShot() {
	nSteps := int(vConcretize(vNondetInt("steps", 1, vHi(3, 5))))
	failStep := int(vConcretize(vNondetInt("failStep", -1, int64(nSteps)-1))) // -1: none fails
	failKind := vConcretize(vNondetInt("failKind", 0, 4))                     // 0 transport 1 template 2 assertion 3 preprocessor 4 body read error
	names := []string{"s0", "s1", "s2", "s3", "s4"}
	cl := &xClient{failAt: -1, bodyErrAt: -1, status: int(vNondetInt("status", 200, 599))}
	cl.body = vNondetString("body", int(vConcretize(vNondetInt("bodylen", 0, 2)))) // the target may answer with an empty body
	// ... and declare any length: unknown, none, the true one or so, an absurd one
	cl.declared = []int64{-1, 0, 2, 1 << 62}[vConcretize(vNondetInt("declaredLength", 0, 3))]
	tp := &xTemplater{seen: map[string]map[string]any{}}
	var reqs []Request
	for i := 0; i < nSteps; i++ {
		post := &xPost{val: "tok" + names[i]}
		pre := &xPre{}
		if i == failStep {
			switch failKind {
			case 0:
				cl.failAt = i
			case 1:
				tp.failAt = names[i]
			case 2:
				post.fail = true
			case 3:
				pre.fail = true
			default:
				cl.bodyErrAt = i
			}
		}
		reqs = append(reqs, Request{Method: "GET", URI: "/" + names[i], Name: names[i], Templater: tp,
			Preprocessor: pre, Postprocessors: []Postprocessor{post}, Headers: map[string]string{"H": "1"}})
	}
	ag := &xAggr{}
	// logging / tracing options change what is logged, never what is executed or reported
	gcfg := phttp.GunConfig{Target: "t.example:80", TargetResolved: "10.0.0.1:80"}
	logMode := vConcretize(vNondetInt("logMode", 0, 3))
	if logMode != 0 {
		vAssume(nSteps == 2) // the logging variants are explored on two-step scenarios
	}
	switch logMode {
	case 1:
		gcfg.HTTPTrace.TraceEnabled, gcfg.HTTPTrace.DumpEnabled = true, true
		// (the response dump renders the status text: a few representative codes instead of all)
		vAssume(cl.status == 200 || cl.status == 302 || cl.status == 404 || cl.status == 503)
	case 2:
		gcfg.AnswLog.Enabled, gcfg.AnswLog.Filter = true, "all"
	}
	g := &ScenarioGun{base: &phttp.BaseGun{Config: gcfg, Client: cl, AnswLog: zap.NewNop()}}
	_ = g.Bind(ag, core.GunDeps{Ctx: context.Background(), Log: zap.NewNop()})
	g.base.DebugLog = logMode == 3
	sc := &Scenario{Requests: reqs, Name: "sc", VariableStorage: xStorage{}, ID: 5}
	g.Shoot(sc) // R1: returns normally whatever the target does

	// X1: order and stop at first failure
	executed := nSteps
	if failStep >= 0 {
		executed = failStep + 1
	}
	vCheck("X1.templated.in.order.until.failure", len(tp.order) == executed || (failStep >= 0 && failKind == 3 && len(tp.order) == failStep))
	for i, n := range tp.order {
		vCheck("X1.listed.order", n == names[i])
	}
	wantCalls := executed
	if failStep >= 0 && (failKind == 1 || failKind == 3) {
		wantCalls = failStep // the failing step never reaches the target
	}
	vCheck("X1.requests.sent", len(cl.calls) == wantCalls)
	for i, p := range cl.calls {
		vCheck("X1.request.order", p == "/"+names[i])
	}
	// G5/X1: one sample per executed step, failing step reported as failed, later steps none
	vCheck("G5.one.sample.per.executed.step", len(ag.samples) == executed)
	for i, s := range ag.samples {
		if i == failStep {
			// (a failed step is additionally marked with the __EMPTY__ tag by reportErr)
			vCheck("G5.failed.sample.tag", s.Tags() == "sc."+names[i]+"|"+EmptyTag)
			vCheck("X1.failed.step.has.error", s.Err() != nil)
			if failKind != 4 {
				vCheck("X1.failed.step.proto.zero", s.ProtoCode() == 0)
			}
		} else {
			vCheck("G5.sample.tag", s.Tags() == "sc."+names[i])
			vCheck("X1.ok.step.status", s.ProtoCode() == cl.status && s.Err() == nil)
		}
	}
	// X2: variables of earlier steps are visible to later ones
	for i := 1; i < len(tp.order); i++ {
		snap := tp.seen[names[i]]
		vCheck("X2.source.visible", snap["source.k"] == "srcval")
		vCheck("X2.earlier.postprocessor.visible", snap[names[i-1]+".post"] == "tok"+names[i-1])
		vCheck("X2.earlier.preprocessor.visible", snap[names[i-1]+".pre"] == "pv")
		vCheck("X2.own.preprocessor.visible", snap[names[i]+".pre"] == "pv")
	}
	vObserve("samples", int64(len(ag.samples)))
	vReach("end")
}
