package config

// X4: weights are reduced by their GCD.
func HarnessC15SpreadNames() {
	n := int(vConcretize(vNondetInt("n", 2, vHi(3, 4))))
	var in []ScenarioConfig
	names := []string{"a", "b", "c", "d"}
	ws := make([]int64, n)
	for i := 0; i < n; i++ {
		hi := int64(12)
		if n >= 3 {
			hi = 6 // (three and four scenarios: weights up to 6)
		}
		ws[i] = vConcretize(vNondetInt("w", 0, hi)) // case split: Euclid's loop runs on concrete weights
		in = append(in, ScenarioConfig{Name: names[i], Weight: ws[i]})
		if ws[i] == 0 {
			ws[i] = 1 // a scenario without weight counts once
		}
	}
	cnt, total := SpreadNames(in)
	sum := 0
	for i := 0; i < n; i++ {
		c := int64(cnt[names[i]])
		vCheck("X4.count.positive", c >= 1)
		sum += int(c)
		// proportional: c_i * w_j == c_j * w_i
		for j := 0; j < n; j++ {
			vCheck("X4.proportional", c*ws[j] == int64(cnt[names[j]])*ws[i])
		}
	}
	vCheck("X4.total", sum == total)
	// reduced: no common divisor d in 2..12 of all counts
	for d := int64(2); d <= 12; d++ {
		all := true
		for i := 0; i < n; i++ {
			if int64(cnt[names[i]])%d != 0 {
				all = false
			}
		}
		vCheck("X4.reduced", !all)
	}
	vObserve("total", int64(total))
	vReach("end")
}
