package postprocessor

import (
	"net/http"
	"strings"
)

// ---- C15: the verdict of assert/response is the one the scenario wrote: a step fails if and only
// if the response does not satisfy the assertion. Header names in any spelling (the response's
// header map holds canonical keys, as net/http fills it), a size assertion with and without body
// patterns (the size is the size of the body the target sent), status code.
func HarnessC15AssertVerdict() {
	// header part
	names := []string{"Content-Type", "ETag", "x-trace-id", "X-Request-ID"}
	name := names[vConcretize(vNondetInt("name", 0, 3))]
	present := vNondetBool("headerSent")
	hv := "v" + string(rune(vNondetInt("hv", 'a', 'z')))
	want := "v" + string(rune(vNondetInt("want", 'a', 'z')))
	resp := &http.Response{StatusCode: int(vConcretize(vNondetInt("status", 200, 201))), Header: http.Header{}}
	if present {
		resp.Header.Set(name, hv) // (stored under the canonical key)
	}
	withHeader := vNondetBool("assertHeader")
	a := AssertResponse{}
	if withHeader {
		a.Headers = map[string]string{name: want}
	}
	// size part
	bl := int(vConcretize(vNondetInt("bodylen", 0, 3)))
	body := strings.Repeat("b", bl)
	withSize := vNondetBool("assertSize")
	op := []string{"eq", "lt", "gt"}[vConcretize(vNondetInt("op", 0, 2))]
	val := int(vConcretize(vNondetInt("val", 0, 3)))
	if withSize {
		a.Size = &AssertSize{Val: val, Op: op}
	}
	if vNondetBool("assertBody") {
		a.Body = []string{"b"}
	}
	if vNondetBool("assertStatus") {
		a.StatusCode = 200
	}
	_, err := a.Process(resp, strings.NewReader(body))
	ok := true
	if len(a.Body) > 0 && bl == 0 {
		ok = false
	}
	if withHeader && !(present && hv == want) {
		ok = false
	}
	if a.StatusCode != 0 && resp.StatusCode != 200 {
		ok = false
	}
	if withSize {
		// the documented reading of the three operators, against the size of the body received
		switch op {
		case "eq":
			ok = ok && val == bl
		case "lt":
			ok = ok && !(val < bl)
		default:
			ok = ok && !(val > bl)
		}
	}
	vCheck("X5.assertion.holds.step.passes", !ok || err == nil)
	vCheck("X5.assertion.fails.step.fails", ok || err != nil)
	vObserve("ok", int64(len(a.Body)))
	vReach("end")
}
