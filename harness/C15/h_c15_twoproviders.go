package http

import (
	httpscenario "github.com/yandex/pandora/components/guns/http_scenario"
	"github.com/yandex/pandora/components/providers/scenario/config"
)

// ---- C15/C11: two scenario providers in one process (two pools, or a provider built a second time)
// whose files use the same scenario and request names with different URI, header and body templates
// and no templater block. Each request, rendered the way the gun renders a step (twice, the second
// time from whatever the templater cached), comes from the templates of its own file.
func HarnessC15TwoProvidersOwnTemplates() {
	letter := func(n string) string { return string(rune(vNondetInt(n, 'a', 'z'))) }
	u := [2]string{"/" + letter("u"), "/" + letter("u")}
	h := [2]string{"v" + letter("h"), "w" + letter("h")}
	b := [2]string{"b" + letter("b"), "c" + letter("b")}
	sameNames := vNondetBool("sameNames")
	var res [2][]*httpscenario.Scenario
	for i := 0; i < 2; i++ {
		body := b[i]
		name, sc := "a", "s"
		if !sameNames && i == 1 {
			name, sc = "b", "t"
		}
		cfg := &config.AmmoConfig{
			Requests:  []config.RequestConfig{{Name: name, Method: "POST", URI: u[i], Headers: map[string]string{"H": h[i]}, Body: &body}},
			Scenarios: []config.ScenarioConfig{{Name: sc, Requests: []string{name}}},
		}
		r, err := decodeAmmo(cfg, nil)
		vCheck("T5.decoded", err == nil && len(r) == 1 && len(r[0].Requests) == 1)
		if err != nil || len(r) != 1 || len(r[0].Requests) != 1 {
			return
		}
		res[i] = r
	}
	for round := 0; round < 2; round++ {
		for i := 0; i < 2; i++ {
			step := res[i][0].Requests[0]
			parts := httpscenario.RequestParts{URL: step.URI, Method: step.Method, Body: step.GetBody(), Headers: step.GetHeaders()}
			err := step.Templater.Apply(&parts, map[string]any{}, res[i][0].Name, step.Name)
			vCheck("T5.apply.ok", err == nil)
			if err != nil {
				return
			}
			vCheck("T5.url.from.own.file", parts.URL == u[i])
			vCheck("T5.header.from.own.file", parts.Headers["H"] == h[i])
			vCheck("T5.body.from.own.file", string(parts.Body) == b[i])
		}
	}
	vObserve("len", int64(len(u[0])))
	vReach("end")
}
