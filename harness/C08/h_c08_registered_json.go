package coreimport

import (
	"context"
	"errors"
	"io"
	"reflect"
	"strings"
	"sync"

	jsoniter "github.com/json-iterator/go"
	"github.com/spf13/afero"
	"github.com/yandex/pandora/core"
	"github.com/yandex/pandora/core/datasource"
	"github.com/yandex/pandora/core/plugin"
	"github.com/yandex/pandora/core/provider"
	"go.uber.org/zap"
)

// ---- C08: the generic JSON provider as pandora registers it under the name "json"
// (core/import.Import -> RegisterCustomJSONProvider): built from the registered constructor with the
// registered default configuration, an inline source of 1-3 one-line entries, limit and passes
// symbolic. It delivers min(limit, passes x entries) entries, each the entry of its line, and ends
// without error - in particular the ammo value that the registered newAmmo function creates must be one
// the decoder can reset and fill (ResetReusedAmmo reflects on it, jsoniter fills pointers only).
// Environment: symbolically the plugin registry (register.* capture the constructors) and jsoniter's
// iterator (Parse / ReadVal: one value per line, filled into a pointer target, error for any other
// target as the library does) are harness stubs; natively the real registry and the real jsoniter run.

var c08j struct {
	ctors    map[string]interface{}
	defaults map[string]interface{}
	reader   io.Reader
}

func vStub_github_com_yandex_pandora_core_register_Provider(name string, newProvider interface{}, defaultConfigOptional ...interface{}) {
	if c08j.ctors == nil {
		c08j.ctors = map[string]interface{}{}
		c08j.defaults = map[string]interface{}{}
	}
	c08j.ctors[name] = newProvider
	if len(defaultConfigOptional) > 0 {
		c08j.defaults[name] = defaultConfigOptional[0]
	}
}
func vStub_github_com_yandex_pandora_core_register_DataSink(name string, f interface{}, d ...interface{})   {}
func vStub_github_com_yandex_pandora_core_register_DataSource(name string, f interface{}, d ...interface{}) {}
func vStub_github_com_yandex_pandora_core_register_Aggregator(name string, f interface{}, d ...interface{}) {}
func vStub_github_com_yandex_pandora_core_register_Limiter(name string, f interface{}, d ...interface{})    {}
func vStub_github_com_yandex_pandora_core_config_AddTypeHook(hook interface{})                              {}
func vStub_github_com_yandex_pandora_lib_confutil_RegisterTagResolver(tag string, r interface{})            {}
func vStub_github_com_yandex_pandora_core_plugin_pluginconfig_AddHooks()                                    {}

func vStub_github_com_json_iterator_go_Parse(cfg jsoniter.API, reader io.Reader, bufSize int) *jsoniter.Iterator {
	c08j.reader = reader
	return &jsoniter.Iterator{}
}

// one JSON value per line; `{"k":"<line>"}` is what the native file holds
func vStub___github_com_json_iterator_go_Iterator__ReadVal(iter *jsoniter.Iterator, obj interface{}) {
	var line []byte
	buf := make([]byte, 1)
	for {
		n, err := c08j.reader.Read(buf)
		if n == 0 {
			if err != nil {
				iter.Error = err
				return
			}
			continue // (loadMore: nothing read, no error: read again)
		}
		if buf[0] == '\n' {
			break
		}
		line = append(line, buf[0])
	}
	switch t := obj.(type) {
	case *map[string]interface{}:
		*t = map[string]interface{}{"k": string(line)}
	default:
		// jsoniter: "ReadVal: can only unmarshal into pointer"
		iter.Error = errors.New("ReadVal: can only unmarshal into pointer")
	}
}

func c08jKey(a core.Ammo) (string, bool) {
	switch t := a.(type) {
	case *map[string]interface{}:
		s, ok := (*t)["k"].(string)
		return s, ok && len(*t) == 1
	case map[string]interface{}:
		s, ok := t["k"].(string)
		return s, ok && len(t) == 1
	}
	return "", false
}

func HarnessC08RegisteredJSONProvider() {
	vSpinIsViolation()
	E := int(vConcretize(vNondetInt("E", 1, 3)))
	limit := int(vNondetInt("limit", 0, 3))
	passes := int(vNondetInt("passes", 0, 3))
	vAssume(limit != 0 || passes != 0)
	keys := []string{"a", "b", "c"}
	var content string
	var p core.Provider
	if vNative() {
		for _, k := range keys[:E] {
			content += `{"k":"` + k + `"}` + "\n"
		}
		old := plugin.DefaultRegistry()
		plugin.SetDefaultRegistry(plugin.NewRegistry())
		defer plugin.SetDefaultRegistry(old)
		Import(afero.NewMemMapFs())
		pl, err := plugin.New(reflect.TypeOf((*core.Provider)(nil)).Elem(), "json", func(conf interface{}) error {
			c := conf.(*provider.JSONProviderConfig)
			c.Decode.Source = datasource.NewInline(datasource.InlineConfig{Data: content})
			c.Decode.Limit, c.Decode.Passes = limit, passes
			return nil
		})
		if err != nil {
			panic(err)
		}
		p = pl.(core.Provider)
	} else {
		content = strings.Join(keys[:E], "\n") + "\n"
		Import(nil)
		conf := c08j.defaults["json"].(func() provider.JSONProviderConfig)()
		conf.Decode.Source = datasource.NewInline(datasource.InlineConfig{Data: content})
		conf.Decode.Limit, conf.Decode.Passes = limit, passes
		p = c08j.ctors["json"].(func(provider.JSONProviderConfig) core.Provider)(conf)
	}
	var runErr error
	done := false
	var wg sync.WaitGroup
	wg.Add(1)
	go func() {
		defer wg.Done()
		runErr = p.Run(context.Background(), core.ProviderDeps{Log: zap.NewNop()})
		done = true
	}()
	got := 0
	for {
		a, ok := p.Acquire()
		if !ok {
			break
		}
		k, okk := c08jKey(a)
		vCheck("J1.entry.of.its.line", okk && k == keys[got%E])
		p.Release(a)
		got++
		vAssume(got <= 12)
	}
	wg.Wait()
	exp := -1
	if limit != 0 {
		exp = limit
	}
	if passes != 0 && (exp < 0 || passes*E < exp) {
		exp = passes * E
	}
	vCheck("J1.delivered.count", got == exp)
	vCheck("J2.run.returns.nil", runErr == nil)
	vCheck("J3.run.finished", done)
	vObserve("got", int64(got))
	vReach("end")
}
