package decoders

import (
	"context"

	"github.com/yandex/pandora/components/providers/http/config"
	"github.com/yandex/pandora/components/providers/http/decoders/ammo"
)

// http/json given as a JSON array: the entries are pre-decoded (encoding/json is outside the
// executor's reach); limit/passes bookkeeping of Scan/scanAmmos is the subject.
func HarnessC08JsonArrayScan() {
	E := int(vConcretize(vNondetInt("E", 1, 3)))
	limit := uint(vNondetInt("limit", 0, vHi(3, 8)))
	passes := uint(vNondetInt("passes", 0, vHi(3, 8)))
	vAssume(limit != 0 || passes != 0)
	d := &jsonlineDecoder{protoDecoder: protoDecoder{config: config.Config{Limit: limit, Passes: passes}}}
	tags := []string{"t1", "t2", "t3"}
	for i := 0; i < E; i++ {
		a := &ammo.Ammo{}
		_ = a.Setup("GET", "http://h/"+tags[i], nil, nil, tags[i])
		d.ammos = append(d.ammos, a)
	}
	got := 0
	var err error
	for {
		var a DecodedAmmo
		a, err = d.Scan(context.Background())
		if err != nil {
			break
		}
		vCheck("D1.ring.order", a.Tag() == tags[got%E])
		got++
		vAssume(got <= 12)
	}
	exp := -1
	if limit != 0 {
		exp = int(limit)
	}
	if passes != 0 && (exp < 0 || int(passes)*E < exp) {
		exp = int(passes) * E
	}
	vCheck("D1.delivered.count", got == exp)
	vCheck("D2.ends.with.limit.sentinel", err == ErrAmmoLimit || err == ErrPassLimit)
	vObserve("got", int64(got))
	vReach("end")
}
