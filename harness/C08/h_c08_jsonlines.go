package decoders

import (
	"context"
	"strings"

	"github.com/yandex/pandora/components/providers/http/config"
)

// http/json, one object per line: limit/passes bookkeeping of jsonlineDecoder.Scan with the
// model JSON decoder (vJSONQueue) in place of encoding/json.
func HarnessC08JsonLinesScan() {
	E := int(vConcretize(vNondetInt("E", 1, 3)))
	limit := uint(vNondetInt("limit", 0, vHi(3, 8)))
	passes := uint(vNondetInt("passes", 0, vHi(3, 8)))
	vAssume(limit != 0 || passes != 0)
	tags := []string{"t1", "t2", "t3"}
	var lines []string
	vJSONArray(false)
	for i := 0; i < E; i++ {
		vJSONQueue(entity{Host: "h", Method: "GET", URI: "/" + tags[i], Tag: tags[i]})
		lines = append(lines, `{"host": "h", "method": "GET", "uri": "/`+tags[i]+`", "tag": "`+tags[i]+`"}`)
	}
	d, err := NewDecoder(config.Config{Decoder: config.DecoderJSONLine, Limit: limit, Passes: passes}, strings.NewReader(strings.Join(lines, "\n")+"\n"))
	vCheck("D0.decoder", err == nil)
	if err != nil {
		return
	}
	got := 0
	for {
		var a DecodedAmmo
		a, err = d.Scan(context.Background())
		if err != nil {
			break
		}
		vCheck("D1.file.order.wrapping", a.Tag() == tags[got%E])
		got++
		vAssume(got <= 12)
	}
	exp := -1
	if limit != 0 {
		exp = int(limit)
	}
	if passes != 0 && (exp < 0 || int(passes)*E < exp) {
		exp = int(passes) * E
	}
	vCheck("D1.delivered.count", got == exp)
	vCheck("D2.ends.with.limit.sentinel", err == ErrAmmoLimit || err == ErrPassLimit)
	vObserve("got", int64(got))
	vReach("end")
}
