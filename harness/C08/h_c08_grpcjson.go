package grpcjson

import (
	"context"
	"errors"
	"io"
	"strings"
	"sync"

	jsoniter "github.com/json-iterator/go"
	"github.com/spf13/afero"
	ammo "github.com/yandex/pandora/components/providers/grpc"
	"github.com/yandex/pandora/core"
	"go.uber.org/zap"
)

type hFile struct {
	afero.File
	r *strings.Reader
}

func (f *hFile) Read(p []byte) (int, error)                 { return f.r.Read(p) }
func (f *hFile) Seek(off int64, whence int) (int64, error) { return f.r.Seek(off, whence) }
func (f *hFile) Close() error                               { return nil }

type hFs struct {
	afero.Fs
	content string
}

func (fs *hFs) Open(name string) (afero.File, error) {
	return &hFile{r: strings.NewReader(fs.content)}, nil
}

var _ io.Reader = (*hFile)(nil)

// jsoniter.Unmarshal is a reflection-driven library: symbolically it is this stub, which reads the
// harness' line format {"tag":"x"} (anything else is a syntax error); the native replay parses the
// same lines with the real library.
func vStub_github_com_json_iterator_go_Unmarshal(data []byte, v interface{}) error {
	return hUnmarshal(data, v)
}

// a configuration of the library frozen by the provider (jsoniter.Config{...}.Froze()): the same stub
type hAPI struct{ jsoniter.API }

func (hAPI) Unmarshal(data []byte, v interface{}) error { return hUnmarshal(data, v) }

func vStub__github_com_json_iterator_go_Config__Froze(cfg jsoniter.Config) jsoniter.API { return hAPI{} }

func hUnmarshal(data []byte, v interface{}) error {
	s := string(data)
	if !strings.HasPrefix(s, `{"tag":"`) || !strings.HasSuffix(s, `"}`) {
		return errors.New("jsoniter: syntax error")
	}
	v.(*ammo.Ammo).Tag = s[len(`{"tag":"`) : len(s)-2]
	return nil
}

// grpc/json provider: limit/passes over files of 1-3 entries; with chosencases (limit counts
// delivered entries), with a malformed line (rejected, or skipped under continue_on_error).
func HarnessC08GrpcJSON() {
	vSpinIsViolation()
	E := int(vConcretize(vNondetInt("E", 1, 3)))
	limit := int(vNondetInt("limit", 0, vHi(3, 8)))
	passes := int(vNondetInt("passes", 0, vHi(3, 8)))
	vAssume(limit != 0 || passes != 0)
	lines := []string{`{"tag":"a"}`, `{"tag":"b"}`, `{"tag":"a"}`}[:E]
	tags := []string{"a", "b", "a"}[:E]
	badAt := int(vConcretize(vNondetInt("badAt", -1, int64(E)-1))) // a line that is not JSON (-1: none)
	cont := vNondetBool("continueOnError")
	if badAt >= 0 {
		lines = append([]string{}, lines...)
		lines[badAt] = `{"tag":`
	}
	var chosen []string
	if vNondetBool("chooseA") {
		chosen = []string{"a"}
	}
	// a line longer than max_ammo_size cannot be read at all: the scanner fails there
	tooLongAt := -1
	maxSize := 0
	if badAt < 0 && vNondetBool("overlong") {
		tooLongAt = int(vConcretize(vNondetInt("tooLongAt", 0, int64(E)-1)))
		maxSize = 16
		lines = append([]string{}, lines...)
		lines[tooLongAt] = `{"tag":"` + strings.Repeat("a", 40) + `"}`
	}
	// a line above the scanner's default 64 KiB that max_ammo_size admits: read on every pass alike
	if badAt < 0 && tooLongAt < 0 && chosen == nil && vNondetBool("admittedLongLine") {
		maxSize = 100000
		lines = append([]string{}, lines...)
		lines[0] = `{"tag":"` + strings.Repeat("a", 70000) + `"}`
	}
	fs := &hFs{content: strings.Join(lines, "\n") + "\n"}
	p := NewProvider(fs, Config{File: "ammo", Limit: limit, Passes: passes, ChosenCases: chosen, ContinueOnError: cont, MaxAmmoSize: maxSize})
	var runErr error
	done := false
	var wg sync.WaitGroup
	wg.Add(1)
	go func() {
		defer wg.Done()
		runErr = p.Run(context.Background(), core.ProviderDeps{Log: zap.NewNop()})
		done = true
	}()
	got := 0
	for {
		a, ok := p.Acquire()
		if !ok {
			break
		}
		am := a.(*ammo.Ammo)
		if len(chosen) > 0 && am.IsValid() {
			vCheck("D1.only.chosen.tags", am.Tag == "a")
		}
		got++
		vAssume(got <= 12)
	}
	wg.Wait()
	vCheck("D3.run.finished", done)
	if tooLongAt >= 0 {
		// the file cannot be read past that line: never a clean end of ammo, unless a limit stopped
		// the provider before it got there
		if limit == 0 {
			vCheck("M12.unreadable.line.is.error", runErr != nil)
		}
		vReach("end")
		return
	}
	if badAt >= 0 && !cont {
		// the malformed line is rejected: the entries before it (first pass) were delivered
		// (with a limit the provider may legitimately stop before it reaches that line)
		if limit == 0 {
			vCheck("M11.malformed.line.rejected", runErr != nil)
		}
		vReach("end")
		return
	}
	// entries of one pass that are delivered (a skipped malformed line is delivered as invalid
	// ammo when it passes the filter: its tag is empty)
	per := 0
	for i := 0; i < E; i++ {
		t := tags[i]
		if i == badAt {
			t = ""
		}
		if len(chosen) == 0 || t == "a" {
			per++
		}
	}
	exp := -1
	if per == 0 {
		exp = 0
	} else {
		if limit != 0 {
			exp = limit
		}
		if passes != 0 && (exp < 0 || passes*per < exp) {
			exp = passes * per
		}
	}
	if per == 0 && passes == 0 {
		// nothing is ever delivered and nothing bounds the passes: outside this cell
		vReach("end")
		return
	}
	vCheck("D1.delivered.count", got == exp)
	vCheck("D2.run.returns.nil", runErr == nil)
	vObserve("got", int64(got))
	vReach("end")
}
