package grpcjson

import (
	"context"
	"io"
	"strings"
	"sync"

	"github.com/spf13/afero"
	"github.com/yandex/pandora/core"
	"go.uber.org/zap"
)

type hFile struct {
	afero.File
	r *strings.Reader
}

func (f *hFile) Read(p []byte) (int, error)                 { return f.r.Read(p) }
func (f *hFile) Seek(off int64, whence int) (int64, error) { return f.r.Seek(off, whence) }
func (f *hFile) Close() error                               { return nil }

type hFs struct {
	afero.Fs
	content string
}

func (fs *hFs) Open(name string) (afero.File, error) {
	return &hFile{r: strings.NewReader(fs.content)}, nil
}

var _ io.Reader = (*hFile)(nil)

// grpc/json provider: every line is taken as one valid entry (jsoniter is stubbed).
func HarnessC08GrpcJSON() {
	vSpinIsViolation()
	E := int(vConcretize(vNondetInt("E", 1, 3)))
	limit := int(vNondetInt("limit", 0, vHi(3, 8)))
	passes := int(vNondetInt("passes", 0, vHi(3, 8)))
	vAssume(limit != 0 || passes != 0)
	lines := []string{`{"tag":"a"}`, `{"tag":"b"}`, `{"tag":"c"}`}
	fs := &hFs{content: strings.Join(lines[:E], "\n") + "\n"}
	p := NewProvider(fs, Config{File: "ammo", Limit: limit, Passes: passes})
	var runErr error
	done := false
	var wg sync.WaitGroup
	wg.Add(1)
	go func() {
		defer wg.Done()
		runErr = p.Run(context.Background(), core.ProviderDeps{Log: zap.NewNop()})
		done = true
	}()
	got := 0
	ids := map[uint64]bool{}
	for {
		a, ok := p.Acquire()
		if !ok {
			break
		}
		_ = a
		got++
		vAssume(got <= 12)
	}
	_ = ids
	wg.Wait()
	exp := -1
	if limit != 0 {
		exp = limit
	}
	if passes != 0 && (exp < 0 || passes*E < exp) {
		exp = passes * E
	}
	vCheck("D1.delivered.count", got == exp)
	vCheck("D2.run.returns.nil", runErr == nil)
	vCheck("D3.run.finished", done)
	vObserve("got", int64(got))
	vReach("end")
}
