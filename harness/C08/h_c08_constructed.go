package http

import (
	"context"
	"errors"
	nethttp "net/http"
	"os"
	"strings"
	"sync"

	"github.com/spf13/afero"
	"github.com/yandex/pandora/components/providers/http/config"
	"github.com/yandex/pandora/core"
	"github.com/yandex/pandora/core/aggregator/netsample"
	"go.uber.org/zap"
)

// ---- C08 through the constructor: NewProvider over a file system (ammo given as a file) or inline
// uris; formats x preload x limit/passes. The ammo file behaves like an *os.File: closing it a
// second time is an error ("file already closed"), so a provider that closes it twice ends its Run
// with an error although every item was delivered. Natively: a real temporary file on the real
// file system.

type cFile struct {
	afero.File
	r      *strings.Reader
	closed *int
	noSeek bool // a pipe / standard input: cannot be rewound
}

func (f *cFile) Read(p []byte) (int, error) { return f.r.Read(p) }
func (f *cFile) Seek(off int64, whence int) (int64, error) {
	if f.noSeek {
		return 0, errors.New("seek ammo: illegal seek")
	}
	return f.r.Seek(off, whence)
}
func (f *cFile) Close() error {
	*f.closed++
	if *f.closed > 1 {
		return errors.New("close ammo: file already closed")
	}
	return nil
}

type cFs struct {
	afero.Fs
	content string
	closed  int
	opened  int
	noSeek  bool
}

func (fs *cFs) Open(name string) (afero.File, error) {
	fs.opened++
	return &cFile{r: strings.NewReader(fs.content), closed: &fs.closed, noSeek: fs.noSeek}, nil
}

func cItoa(n int) string {
	if n == 0 {
		return "0"
	}
	s := ""
	for n > 0 {
		s = string(rune('0'+n%10)) + s
		n /= 10
	}
	return s
}

func cContent(dec config.DecoderType, E int) string {
	switch dec {
	case config.DecoderURI:
		return strings.Join([]string{"/a t1", "/b t2", "/c t1"}[:E], "\n") + "\n"
	case config.DecoderURIPost:
		return strings.Join([]string{"1 /a t1\nx", "2 /b t2\nyz", "0 /c t1\n"}[:E], "\n") + "\n"
	case config.DecoderRaw:
		one := func(p, tag string) string {
			req := "GET " + p + " HTTP/1.1\r\nHost: h\r\n\r\n"
			return cItoa(len(req)) + " " + tag + "\n" + req
		}
		return strings.Join([]string{one("/a", "t1"), one("/b", "t2"), one("/c", "t1")}[:E], "\n") + "\n"
	}
	return ""
}

func HarnessC08ConstructedProvider() {
	dec := []config.DecoderType{config.DecoderURI, config.DecoderURIPost, config.DecoderRaw}[vConcretize(vNondetInt("format", 0, 2))]
	E := int(vConcretize(vNondetInt("E", 1, 2)))
	limit := uint(vNondetInt("limit", 0, 3))
	passes := uint(vNondetInt("passes", 0, 3))
	vAssume(limit != 0 || passes != 0)
	preload := vNondetBool("preload")
	inline := dec == config.DecoderURI && vNondetBool("inlineUris")
	conf := config.Config{Decoder: dec, Limit: limit, Passes: passes, Preload: preload}
	var fs afero.Fs
	model := &cFs{content: cContent(dec, E)}
	tmpName := ""
	// ammo read from a pipe (the model file, natively too): one pass over it needs no rewinding
	pipe := !inline && passes == 1 && vNondetBool("pipe")
	switch {
	case inline:
		conf.Uris = []string{"/a t1", "/b t2", "/c t1"}[:E]
		fs = model
	case pipe:
		conf.File = "ammo"
		model.noSeek = true
		fs = model
	case vNative():
		f, err := os.CreateTemp("", "c08ammo")
		if err != nil {
			panic(err)
		}
		_, _ = f.WriteString(model.content)
		_ = f.Close()
		tmpName = f.Name()
		conf.File = tmpName
		fs = afero.NewOsFs()
	default:
		conf.File = "ammo"
		fs = model
	}
	p, err := NewProvider(fs, conf)
	vCheck("D0.provider.created", err == nil)
	if err != nil {
		return
	}
	var runErr error
	var wg sync.WaitGroup
	wg.Add(1)
	go func() {
		defer wg.Done()
		runErr = p.Run(context.Background(), core.ProviderDeps{Log: zap.NewNop()})
	}()
	got := 0
	for {
		a, ok := p.Acquire()
		if !ok {
			break
		}
		got++
		p.Release(a)
		vAssume(got <= 12)
	}
	wg.Wait()
	if tmpName != "" {
		_ = os.Remove(tmpName)
	}
	exp := -1
	if limit != 0 {
		exp = int(limit)
	}
	if passes != 0 && (exp < 0 || int(passes)*E < exp) {
		exp = int(passes) * E
	}
	vCheck("D1.delivered.count", got == exp)
	vCheck("D2.run.returns.nil", runErr == nil)
	if !inline && (pipe || !vNative()) {
		vCheck("D4.ammo.file.closed.once", model.opened == 1 && model.closed == 1)
	}
	vObserve("got", int64(got))
	vReach("end")
}

// ---- C14 through the constructor: chosencases lists that name the empty tag (the tag of entries
// written without one), next to ordinary tags, in either order: exactly the entries whose tag is
// listed are delivered, in file order, with their own tag - with and without preload, from inline
// uris, a uri file and a uripost file. One pass, no limit (the limit/nothing-chosen cells are the
// open C14 findings; lists that match no entry are left out here).
func HarnessC14ConstructedChosenCases() {
	format := int(vConcretize(vNondetInt("format", 0, 2))) // 0 inline uris, 1 uri file, 2 uripost file
	tagsOf := []string{"", "a", "b"}
	var tags [3]string
	for i := range tags {
		tags[i] = tagsOf[vConcretize(vNondetInt("tag", 0, 2))]
	}
	chosen := [][]string{{""}, {"a"}, {"", "a"}, {"a", ""}, {"b", "a"}, {"", "b", "a"}}[vConcretize(vNondetInt("chosen", 0, 5))]
	preload := vNondetBool("preload")
	var want []int
	for i, t := range tags {
		for _, c := range chosen {
			if c == t {
				want = append(want, i)
				break
			}
		}
	}
	vAssume(len(want) > 0)
	line := func(i int) string {
		l := "/" + cItoa(i)
		if tags[i] != "" {
			l += " " + tags[i]
		}
		return l
	}
	conf := config.Config{Decoder: config.DecoderURI, Passes: 1, Preload: preload, ChosenCases: chosen}
	model := &cFs{}
	switch format {
	case 0:
		conf.Uris = []string{line(0), line(1), line(2)}
	case 1:
		conf.File = "ammo"
		model.content = line(0) + "\n" + line(1) + "\n" + line(2) + "\n"
	case 2:
		conf.Decoder = config.DecoderURIPost
		conf.File = "ammo"
		model.content = "1 " + line(0) + "\nx\n0 " + line(1) + "\n\n2 " + line(2) + "\nyz\n"
	}
	p, err := NewProvider(model, conf)
	vCheck("D0.provider.created", err == nil)
	if err != nil {
		return
	}
	var runErr error
	var wg sync.WaitGroup
	wg.Add(1)
	go func() {
		defer wg.Done()
		runErr = p.Run(context.Background(), core.ProviderDeps{Log: zap.NewNop()})
	}()
	got := 0
	for {
		a, ok := p.Acquire()
		if !ok {
			break
		}
		req, sample := a.(interface {
			Request() (*nethttp.Request, *netsample.Sample)
		}).Request()
		if got < len(want) {
			vCheck("P3.listed.entries.in.file.order", req.URL.Path == "/"+cItoa(want[got]))
			vCheck("P3.entry.keeps.its.tag", sample.Tags() == tags[want[got]])
		}
		got++
		p.Release(a)
		vAssume(got <= 6)
	}
	wg.Wait()
	vCheck("P3.exactly.the.listed.entries", got == len(want))
	vCheck("D2.run.returns.nil", runErr == nil)
	vObserve("got", int64(got))
	vReach("end")
}
