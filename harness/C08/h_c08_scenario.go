package scenario

import (
	"context"
	"sync"

	"github.com/yandex/pandora/core"
	"go.uber.org/zap"
)

type hA struct {
	id uint64
	n  int
}

func (a *hA) SetID(id uint64) { a.id = id }
func (a *hA) Clone() ProvAmmo { return &hA{n: a.n} }

func HarnessC08ScenarioProvider() {
	E := int(vConcretize(vNondetInt("E", 1, 3)))
	limit := uint(vNondetInt("limit", 0, vHi(3, 8)))
	passes := uint(vNondetInt("passes", 0, vHi(3, 8)))
	vAssume(limit != 0 || passes != 0)
	p := &Provider[*hA]{}
	p.SetConfig(ProviderConfig{Limit: limit, Passes: passes})
	p.SetSink(make(chan *hA))
	var ammos []*hA
	for i := 0; i < E; i++ {
		ammos = append(ammos, &hA{n: i})
	}
	p.SetAmmos(ammos)
	var runErr error
	done := false
	var wg sync.WaitGroup
	wg.Add(1)
	go func() {
		defer wg.Done()
		runErr = p.Run(context.Background(), core.ProviderDeps{Log: zap.NewNop()})
		done = true
	}()
	got := 0
	ids := map[uint64]bool{}
	for {
		a, ok := p.Acquire()
		if !ok {
			break
		}
		ha := a.(*hA)
		vCheck("D1.ring.order", ha.n == got%E)
		vCheck("G4.ids.unique", !ids[ha.id])
		ids[ha.id] = true
		got++
		vAssume(got <= 12)
	}
	wg.Wait()
	exp := -1
	if limit != 0 {
		exp = int(limit)
	}
	if passes != 0 && (exp < 0 || int(passes)*E < exp) {
		exp = int(passes) * E
	}
	vCheck("D1.delivered.count", got == exp)
	vCheck("D2.run.returns.nil", runErr == nil)
	vCheck("D3.run.finished", done)
	vObserve("got", int64(got))
	vReach("end")
}

// ---- C08/C13: a scenario ammo file that decodes but holds no scenario (`scenarios: []`, or the key
// is missing): the provider has nothing to deliver. Whatever Run answers, instances waiting in
// Acquire see the end of ammo - a consumer still blocked after Run returned is a deadlock here -
// and Run ends with an error (an empty run is not a success) for every limit/passes cell.
func HarnessC08ScenarioProviderNoScenarios() {
	limit := uint(vNondetInt("limit", 0, 3))
	passes := uint(vNondetInt("passes", 0, 3))
	consumers := int(vConcretize(vNondetInt("consumers", 1, 2)))
	p := &Provider[*hA]{}
	p.SetConfig(ProviderConfig{Limit: limit, Passes: passes})
	p.SetSink(make(chan *hA))
	p.SetAmmos(nil)
	var runErr error
	done := false
	var wg, cw sync.WaitGroup
	wg.Add(1)
	go func() {
		defer wg.Done()
		runErr = p.Run(context.Background(), core.ProviderDeps{Log: zap.NewNop()})
		done = true
	}()
	got := 0
	for c := 1; c < consumers; c++ {
		cw.Add(1)
		go func() {
			defer cw.Done()
			if _, ok := p.Acquire(); ok {
				got++
			}
		}()
	}
	if _, ok := p.Acquire(); ok {
		got++
	}
	cw.Wait()
	wg.Wait()
	vCheck("D7.nothing.delivered", got == 0)
	vCheck("D7.empty.run.is.an.error", runErr != nil)
	vCheck("D3.run.finished", done)
	vReach("end")
}
