package provider

import (
	"bufio"
	"context"
	"io"
	"strings"
	"sync"

	"github.com/yandex/pandora/core"
	"go.uber.org/zap"
)

type hSrc struct{ content string }

type hRSC struct{ *strings.Reader }

func (hRSC) Close() error { return nil }

func (s *hSrc) OpenSource() (io.ReadCloser, error) { return hRSC{strings.NewReader(s.content)}, nil }

type hLineAmmo struct{ line string }

// generic decode provider (the JSON provider's engine): one entry per line, model decoder.
func HarnessC08DecodeProvider() {
	vSpinIsViolation()
	E := int(vConcretize(vNondetInt("E", 1, 3)))
	limit := int(vNondetInt("limit", 0, vHi(3, 8)))
	passes := int(vNondetInt("passes", 0, vHi(3, 8)))
	vAssume(limit != 0 || passes != 0)
	lines := []string{"a", "b", "c"}
	conf := DecodeProviderConfig{Queue: AmmoQueueConfig{AmmoQueueSize: 1}, Source: &hSrc{strings.Join(lines[:E], "\n") + "\n"},
		Limit: limit, Passes: passes}
	newDec := func(deps core.ProviderDeps, src io.Reader) (AmmoDecoder, error) {
		br := bufio.NewReader(src)
		return AmmoDecoderFunc(func(a core.Ammo) error {
			l, err := br.ReadString('\n')
			if err != nil {
				return err
			}
			a.(*hLineAmmo).line = strings.TrimSpace(l)
			return nil
		}), nil
	}
	p := NewDecodeProvider(func() core.Ammo { return &hLineAmmo{} }, newDec, conf)
	var runErr error
	done := false
	var wg sync.WaitGroup
	wg.Add(1)
	go func() {
		defer wg.Done()
		runErr = p.Run(context.Background(), core.ProviderDeps{Log: zap.NewNop()})
		done = true
	}()
	got := 0
	for {
		a, ok := p.Acquire()
		if !ok {
			break
		}
		vCheck("D1.file.order.wrapping", a.(*hLineAmmo).line == lines[got%E])
		p.Release(a)
		got++
		vAssume(got <= 12)
	}
	wg.Wait()
	exp := -1
	if limit != 0 {
		exp = limit
	}
	if passes != 0 && (exp < 0 || passes*E < exp) {
		exp = passes * E
	}
	vCheck("D1.delivered.count", got == exp)
	vCheck("D2.run.returns.nil", runErr == nil)
	vCheck("D3.run.finished", done)
	vObserve("got", int64(got))
	vReach("end")
}
