package provider

import (
	"bufio"
	"context"
	"errors"
	"io"
	"strings"
	"sync"

	pkgerrors "github.com/pkg/errors"
	"github.com/yandex/pandora/core"
	"github.com/yandex/pandora/core/datasource"
	"go.uber.org/zap"
)

type hSrc struct{ content string }

type hRSC struct{ *strings.Reader }

func (hRSC) Close() error { return nil }

func (s *hSrc) OpenSource() (io.ReadCloser, error) { return hRSC{strings.NewReader(s.content)}, nil }

type hLineAmmo struct{ line string }

// generic decode provider (the JSON provider's engine): one entry per line, model decoder.
func HarnessC08DecodeProvider() {
	vSpinIsViolation()
	E := int(vConcretize(vNondetInt("E", 1, 3)))
	limit := int(vNondetInt("limit", 0, vHi(3, 8)))
	passes := int(vNondetInt("passes", 0, vHi(3, 8)))
	vAssume(limit != 0 || passes != 0)
	lines := []string{"a", "b", "c"}
	// the data source: a model one, or the real inline/string source of core/datasource
	var src core.DataSource = &hSrc{strings.Join(lines[:E], "\n") + "\n"}
	if vNondetBool("inlineSource") {
		src = datasource.NewInline(datasource.InlineConfig{Data: strings.Join(lines[:E], "\n") + "\n"})
	}
	conf := DecodeProviderConfig{Queue: AmmoQueueConfig{AmmoQueueSize: 1}, Source: src,
		Limit: limit, Passes: passes}
	newDec := func(deps core.ProviderDeps, src io.Reader) (AmmoDecoder, error) {
		br := bufio.NewReader(src)
		return AmmoDecoderFunc(func(a core.Ammo) error {
			l, err := br.ReadString('\n')
			if err != nil {
				return err
			}
			a.(*hLineAmmo).line = strings.TrimSpace(l)
			return nil
		}), nil
	}
	p := NewDecodeProvider(func() core.Ammo { return &hLineAmmo{} }, newDec, conf)
	var runErr error
	done := false
	var wg sync.WaitGroup
	wg.Add(1)
	go func() {
		defer wg.Done()
		runErr = p.Run(context.Background(), core.ProviderDeps{Log: zap.NewNop()})
		done = true
	}()
	got := 0
	for {
		a, ok := p.Acquire()
		if !ok {
			break
		}
		vCheck("D1.file.order.wrapping", a.(*hLineAmmo).line == lines[got%E])
		p.Release(a)
		got++
		vAssume(got <= 12)
	}
	wg.Wait()
	exp := -1
	if limit != 0 {
		exp = limit
	}
	if passes != 0 && (exp < 0 || passes*E < exp) {
		exp = passes * E
	}
	vCheck("D1.delivered.count", got == exp)
	vCheck("D2.run.returns.nil", runErr == nil)
	vCheck("D3.run.finished", done)
	vObserve("got", int64(got))
	vReach("end")
}

type hFailSrc struct{ err error }

func (s *hFailSrc) OpenSource() (io.ReadCloser, error) { return nil, s.err }

// the generic decode provider failing at every stage (data source cannot be opened, decoder
// cannot be constructed, an entry cannot be decoded): Run returns an error that carries the cause
// and the ammo queue is closed, so that instances waiting in Acquire see the end of ammo instead of
// blocking forever (a consumer still blocked would be a deadlock outcome here).
func HarnessC08DecodeProviderFaults() {
	vSpinIsViolation()
	cause := errors.New("injected provider failure")
	fault := vConcretize(vNondetInt("fault", 0, 3)) // 0 open, 1 decoder construction, 2 decode of entry k, 3 none
	failAt := int(vConcretize(vNondetInt("failAt", 0, 2)))
	lines := "a\nb\n"
	var src core.DataSource = &hSrc{lines}
	if fault == 0 {
		src = &hFailSrc{cause}
	}
	conf := DecodeProviderConfig{Queue: AmmoQueueConfig{AmmoQueueSize: 1}, Source: src, Passes: 1}
	newDec := func(deps core.ProviderDeps, src io.Reader) (AmmoDecoder, error) {
		if fault == 1 {
			return nil, cause
		}
		br := bufio.NewReader(src)
		n := 0
		return AmmoDecoderFunc(func(a core.Ammo) error {
			if fault == 2 && n == failAt {
				return cause
			}
			n++
			l, err := br.ReadString('\n')
			if err != nil {
				return err
			}
			a.(*hLineAmmo).line = strings.TrimSpace(l)
			return nil
		}), nil
	}
	p := NewDecodeProvider(func() core.Ammo { return &hLineAmmo{} }, newDec, conf)
	var runErr error
	var wg sync.WaitGroup
	wg.Add(1)
	go func() {
		defer wg.Done()
		runErr = p.Run(context.Background(), core.ProviderDeps{Log: zap.NewNop()})
	}()
	got := 0
	for {
		a, ok := p.Acquire() // must end: the queue is closed whatever happened
		if !ok {
			break
		}
		got++
		p.Release(a)
		if got > 4 {
			break
		}
	}
	wg.Wait()
	if fault == 3 {
		vCheck("D6.no.fault.ok", runErr == nil && got == 2)
	} else {
		vCheck("D6.failure.reported.with.cause", runErr != nil && pkgerrors.Cause(runErr) == cause)
		if fault == 2 {
			vCheck("D6.entries.before.the.failure.delivered", got == failAt)
		} else {
			vCheck("D6.nothing.delivered", got == 0)
		}
	}
	vReach("end")
}

// ---- C08/C13: an empty ammo source under the generic provider. The decoder reads the way
// jsoniter's iterator does (a Read that returns no data and no error is retried at once), which is
// what the registered "json" provider runs on: the provider must end (with or without an error) and
// never spin, whatever the pass bound.
func HarnessC08DecodeProviderEmptySource() {
	vSpinIsViolation()
	E := int(vConcretize(vNondetInt("E", 0, 1)))
	limit := int(vNondetInt("limit", 0, 2))
	passes := int(vNondetInt("passes", 0, 2))
	content := strings.Repeat("a\n", E)
	var src core.DataSource = &hSrc{content}
	if vNondetBool("inlineSource") {
		src = datasource.NewInline(datasource.InlineConfig{Data: content})
	}
	conf := DecodeProviderConfig{Queue: AmmoQueueConfig{AmmoQueueSize: 1}, Source: src, Limit: limit, Passes: passes}
	newDec := func(deps core.ProviderDeps, src io.Reader) (AmmoDecoder, error) {
		return AmmoDecoderFunc(func(a core.Ammo) error {
			var line []byte
			buf := make([]byte, 1)
			for {
				n, err := src.Read(buf)
				if n == 0 {
					if err != nil {
						return err
					}
					continue // (jsoniter's loadMore: nothing read, no error: read again)
				}
				if buf[0] == '\n' {
					a.(*hLineAmmo).line = string(line)
					return nil
				}
				line = append(line, buf[0])
			}
		}), nil
	}
	p := NewDecodeProvider(func() core.Ammo { return &hLineAmmo{} }, newDec, conf)
	ctx, cancel := context.WithCancel(context.Background())
	done := false
	var wg sync.WaitGroup
	wg.Add(1)
	go func() {
		defer wg.Done()
		_ = p.Run(ctx, core.ProviderDeps{Log: zap.NewNop()})
		done = true
	}()
	got := 0
	for got < 3 {
		a, ok := p.Acquire()
		if !ok {
			break
		}
		p.Release(a)
		got++
	}
	cancel()
	wg.Wait()
	vCheck("D3.run.finished", done)
	if E == 0 {
		vCheck("D1.empty.source.delivers.nothing", got == 0)
	}
	vObserve("got", int64(got))
	vReach("end")
}
