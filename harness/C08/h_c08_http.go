package provider

import (
	"context"
	"strings"
	"sync"

	"github.com/yandex/pandora/components/providers/http/config"
	"github.com/yandex/pandora/components/providers/http/decoders"
	"github.com/yandex/pandora/core"
	"go.uber.org/zap"
)

// ---- C08/C14: HTTP file providers: limit/passes, clean end of ammo, preload, chosencases ----

func c08File(dec config.DecoderType, E int) string {
	switch dec {
	case config.DecoderURI:
		return strings.Join([]string{"/a t1", "/b t2", "/c t1"}[:E], "\n") + "\n"
	case config.DecoderURIPost:
		return strings.Join([]string{"1 /a t1\nx", "2 /b t2\nyz", "0 /c t1\n"}[:E], "\n") + "\n"
	case config.DecoderRaw:
		one := func(p, tag string) string {
			req := "GET " + p + " HTTP/1.1\r\nHost: h\r\n\r\n"
			return itoa(len(req)) + " " + tag + "\n" + req
		}
		return strings.Join([]string{one("/a", "t1"), one("/b", "t2"), one("/c", "t1")}[:E], "\n") + "\n"
	}
	return ""
}

func itoa(n int) string {
	if n == 0 {
		return "0"
	}
	s := ""
	for n > 0 {
		s = string(rune('0'+n%10)) + s
		n /= 10
	}
	return s
}

type c08Result struct {
	tags   []string
	runErr error
	done   bool
}

// c08Drain runs the provider and one consumer that acquires until end of ammo (or until
// maxItems, then cancels: the unbounded cell).
func c08Drain(dec config.DecoderType, file string, limit, passes uint, preload bool, chosen []string, maxItems int) c08Result {
	conf := config.Config{Decoder: dec, Limit: limit, Passes: passes, Preload: preload, ChosenCases: chosen}
	d, err := decoders.NewDecoder(conf, strings.NewReader(file))
	vCheck("D0.decoder.created", err == nil)
	p := &Provider{Config: conf, Decoder: d, Sink: make(chan decoders.DecodedAmmo)}
	ctx, cancel := context.WithCancel(context.Background())
	var res c08Result
	var wg sync.WaitGroup
	wg.Add(1)
	go func() {
		defer wg.Done()
		res.runErr = p.Run(ctx, core.ProviderDeps{Log: zap.NewNop()})
		res.done = true
	}()
	for {
		a, ok := <-p.Sink
		if !ok {
			break
		}
		res.tags = append(res.tags, a.Tag())
		if len(res.tags) >= maxItems {
			cancel()
			break
		}
	}
	wg.Wait()
	cancel()
	return res
}

func c08Expected(E int, limit, passes uint) int {
	exp := -1
	if limit != 0 {
		exp = int(limit)
	}
	if passes != 0 && (exp < 0 || int(passes)*E < exp) {
		exp = int(passes) * E
	}
	return exp
}

func c08Bounded(dec config.DecoderType, preload bool) {
	E := int(vConcretize(vNondetInt("E", 1, 3)))
	limit := uint(vNondetInt("limit", 0, vHi(3, 8)))
	passes := uint(vNondetInt("passes", 0, vHi(3, 8)))
	vAssume(limit != 0 || passes != 0)
	exp := c08Expected(E, limit, passes)
	res := c08Drain(dec, c08File(dec, E), limit, passes, preload, nil, 1000)
	vCheck("D1.delivered.count", len(res.tags) == exp)
	vCheck("D2.run.returns.nil", res.runErr == nil)
	vCheck("D3.run.finished", res.done)
	all := []string{"t1", "t2", "t1"}
	for i, tg := range res.tags {
		vCheck("D1.file.order.wrapping", tg == all[i%E])
	}
	vObserve("n", int64(len(res.tags)))
	vReach("end")
}

func HarnessC08UriStream()      { c08Bounded(config.DecoderURI, false) }
func HarnessC08UriPreload()     { c08Bounded(config.DecoderURI, true) }
func HarnessC08UripostStream()  { c08Bounded(config.DecoderURIPost, false) }
func HarnessC08UripostPreload() { c08Bounded(config.DecoderURIPost, true) }
func HarnessC08RawStream()      { c08Bounded(config.DecoderRaw, false) }
func HarnessC08RawPreload()     { c08Bounded(config.DecoderRaw, true) }

// unbounded cell: limit = passes = 0; the consumer stops after 2E+1 items and cancels.
func c08Unbounded(dec config.DecoderType, preload bool) {
	E := int(vConcretize(vNondetInt("E", 1, 2)))
	res := c08Drain(dec, c08File(dec, E), 0, 0, preload, nil, 2*E+1)
	vCheck("D5.unbounded.delivers", len(res.tags) == 2*E+1)
	vCheck("D5.cancel.returns", res.done)
	vCheck("D5.cancel.no.failure", res.runErr == nil || res.runErr == context.Canceled)
	vReach("end")
}

func HarnessC08UriUnbounded()        { c08Unbounded(config.DecoderURI, false) }
func HarnessC08UriUnboundedPreload() { c08Unbounded(config.DecoderURI, true) }
