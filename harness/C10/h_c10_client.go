package phttp

import (
	"bufio"
	"context"
	"fmt"
	"io"
	"net"
	"net/http"
	"net/url"
	"strings"
	"time"

	"github.com/yandex/pandora/core"
	"github.com/yandex/pandora/core/aggregator/netsample"
	"go.uber.org/zap"
)

// ---- C10/G2 through the real client of the http guns (redirect: false, the default): whatever
// status and Location header the target answers with, the sample carries that status and net
// code 0, and nothing is followed. The transport is the environment: symbolically
// (*http.Transport).RoundTrip is replaced by the stub below (one response, no network); the
// native replay dials an in-memory connection served with the same response.

var c10rt struct {
	status int
	loc    string
	hasLoc bool
	calls  int
	// what reached the transport (C09)
	auth, xammo  string
	nAuth, nAmmo int
	path         string
}

func c10Seen(h http.Header, u *url.URL) {
	c10rt.nAuth, c10rt.nAmmo = len(h["Authorization"]), len(h["X-Ammo"])
	c10rt.auth, c10rt.xammo = h.Get("Authorization"), h.Get("X-Ammo")
	c10rt.path = u.RequestURI()
}

func vStub___net_http_Transport__RoundTrip(t *http.Transport, req *http.Request) (*http.Response, error) {
	c10rt.calls++
	c10Seen(req.Header, req.URL)
	h := http.Header{}
	if c10rt.hasLoc {
		h["Location"] = []string{c10rt.loc}
	}
	return &http.Response{StatusCode: c10rt.status, ProtoMajor: 1, ProtoMinor: 1, Header: h,
		Body: io.NopCloser(strings.NewReader("")), Request: req}, nil
}

func c10NativeTransport() *http.Transport {
	return &http.Transport{DialContext: func(ctx context.Context, network, addr string) (net.Conn, error) {
		cli, srv := net.Pipe()
		go func() {
			defer srv.Close()
			rq, err := http.ReadRequest(bufio.NewReader(srv))
			if err != nil {
				return
			}
			c10Seen(rq.Header, rq.URL)
			c10rt.calls++
			loc := ""
			if c10rt.hasLoc {
				loc = "Location: " + c10rt.loc + "\r\n"
			}
			fmt.Fprintf(srv, "HTTP/1.1 %d X\r\n%sContent-Length: 0\r\nConnection: close\r\n\r\n", c10rt.status, loc)
		}()
		return cli, nil
	}}
}

func HarnessC10NoRedirectClient() {
	c10rt.calls = 0
	c10rt.status = int(vNondetInt("status", 200, 599))
	c10rt.hasLoc = vNondetBool("hasLoc")
	n := int(vConcretize(vNondetInt("loclen", 0, vHi(3, 4))))
	c10rt.loc = vNondetString("loc", n)
	for i := 0; i < n; i++ {
		vAssume(c10rt.loc[i] > ' ' && c10rt.loc[i] < 0x7f) // a printable header value
	}
	tr := &http.Transport{}
	if vNative() {
		tr = c10NativeTransport()
	}
	cl := NewRedirectingClient(tr, false)
	cfg := GunConfig{Target: "target.example:8080", TargetResolved: "10.0.0.1:8080"}
	g := &BaseGun{Config: cfg, Client: cl}
	ag := &hSampleAggr{}
	_ = g.Bind(ag, core.GunDeps{Ctx: context.Background(), Log: zap.NewNop()})
	req := &http.Request{Method: "GET", URL: &url.URL{Path: "/a"}, Header: http.Header{}, ProtoMajor: 1, ProtoMinor: 1}
	g.Shoot(&hHTTPAmmo{req: req, sample: netsample.Acquire("t"), id: 1})
	vCheck("G2.client.one.sample", ag.n == 1)
	if ag.n != 1 {
		return
	}
	vCheck("G2.client.proto.is.status.received", ag.last.ProtoCode() == c10rt.status)
	vCheck("G2.client.net.zero.when.response.received", ag.last.Err() == nil)
	vCheck("G2.client.nothing.followed", c10rt.calls == 1)
	vObserve("proto", int64(ag.last.ProtoCode()))
	vReach("end")
}

// ---- C09 through the same real client (redirect: false): the headers that reach the transport are
// the ammo's - nothing is derived from other parts of the request (credentials written into an
// absolute ammo URL do not turn into an Authorization header, an Authorization header of the ammo
// is passed on as it is), the request URI is the ammo's.
func HarnessC09ClientHeaders() {
	c10rt.calls, c10rt.status, c10rt.hasLoc = 0, 200, false
	tr := &http.Transport{}
	if vNative() {
		tr = c10NativeTransport()
	}
	cl := NewRedirectingClient(tr, false)
	cfg := GunConfig{Target: "target.example:8080", TargetResolved: "10.0.0.1:8080"}
	g := &BaseGun{Config: cfg, Client: cl}
	ag := &hSampleAggr{}
	_ = g.Bind(ag, core.GunDeps{Ctx: context.Background(), Log: zap.NewNop()})
	u := &url.URL{Path: "/" + string(rune(vNondetInt("p", 'a', 'z')))}
	if vNondetBool("absolute") {
		u.Scheme, u.Host = "http", "ammo.example"
		if vNondetBool("userinfo") {
			u.User = url.UserPassword("load", "secret")
		}
	}
	hdr := http.Header{}
	hasAuth, hasAmmo := vNondetBool("hasAuth"), vNondetBool("hasAmmo")
	av := "Bearer " + string(rune(vNondetInt("a", 'a', 'z')))
	xv := "x" + string(rune(vNondetInt("x", 'a', 'z')))
	if hasAuth {
		hdr["Authorization"] = []string{av}
	}
	if hasAmmo {
		hdr["X-Ammo"] = []string{xv}
	}
	req := &http.Request{Method: "GET", URL: u, Header: hdr, ProtoMajor: 1, ProtoMinor: 1}
	g.Shoot(&hHTTPAmmo{req: req, sample: netsample.Acquire("t"), id: 1})
	vCheck("H5.sent.once", c10rt.calls == 1)
	if c10rt.calls != 1 {
		return
	}
	if hasAuth {
		vCheck("H5.ammo.authorization.unchanged", c10rt.nAuth == 1 && c10rt.auth == av)
	} else {
		vCheck("H5.no.header.the.ammo.does.not.have", c10rt.nAuth == 0)
	}
	if hasAmmo {
		vCheck("H5.ammo.header.unchanged", c10rt.nAmmo == 1 && c10rt.xammo == xv)
	} else {
		vCheck("H5.no.header.the.ammo.does.not.have", c10rt.nAmmo == 0)
	}
	vCheck("H5.request.uri.unchanged", c10rt.path == u.Path)
	vObserve("nAuth", int64(c10rt.nAuth))
	vReach("end")
}

// ---- C09 (keep-alive part, pandora's side): the transport the guns shoot through is configured
// as the gun config says - every client option lands in the field of http.Transport it is named
// after (symbolic, pairwise distinct values), keep-alives are on unless switched off, the TLS
// server name is the target's host and HTTP/1.1 is pinned. How net/http then reuses connections is
// the library's business.
func HarnessC09TransportConfig() {
	conf := DefaultClientConfig().Transport
	d := func(name string) time.Duration { return time.Duration(vNondetInt(name, 1, 1<<40)) }
	conf.TLSHandshakeTimeout, conf.IdleConnTimeout = d("tls"), d("idle")
	conf.ResponseHeaderTimeout, conf.ExpectContinueTimeout = d("hdr"), d("cont")
	conf.MaxIdleConns, conf.MaxIdleConnsPerHost = int(vNondetInt("maxIdle", 0, 1000)), int(vNondetInt("maxIdleHost", 0, 1000))
	conf.DisableKeepAlives, conf.DisableCompression = vNondetBool("noKeepAlive"), vNondetBool("noCompression")
	vAssume(conf.TLSHandshakeTimeout != conf.IdleConnTimeout && conf.IdleConnTimeout != conf.ResponseHeaderTimeout &&
		conf.ResponseHeaderTimeout != conf.ExpectContinueTimeout && conf.TLSHandshakeTimeout != conf.ResponseHeaderTimeout &&
		conf.TLSHandshakeTimeout != conf.ExpectContinueTimeout && conf.IdleConnTimeout != conf.ExpectContinueTimeout)
	vAssume(conf.MaxIdleConns != conf.MaxIdleConnsPerHost)
	tr := NewTransport(conf, nil, "target.example:8080")
	vCheck("H6.idle.conn.timeout", tr.IdleConnTimeout == conf.IdleConnTimeout)
	vCheck("H6.tls.handshake.timeout", tr.TLSHandshakeTimeout == conf.TLSHandshakeTimeout)
	vCheck("H6.response.header.timeout", tr.ResponseHeaderTimeout == conf.ResponseHeaderTimeout)
	vCheck("H6.expect.continue.timeout", tr.ExpectContinueTimeout == conf.ExpectContinueTimeout)
	vCheck("H6.max.idle.conns", tr.MaxIdleConns == conf.MaxIdleConns && tr.MaxIdleConnsPerHost == conf.MaxIdleConnsPerHost)
	vCheck("H6.keep.alives.as.configured", tr.DisableKeepAlives == conf.DisableKeepAlives)
	vCheck("H6.compression.as.configured", tr.DisableCompression == conf.DisableCompression)
	vCheck("H6.tls.server.name.is.target.host", tr.TLSClientConfig != nil && tr.TLSClientConfig.ServerName == "target.example")
	vCheck("H6.http1.pinned", tr.TLSClientConfig != nil && len(tr.TLSClientConfig.NextProtos) == 1 && tr.TLSClientConfig.NextProtos[0] == "http/1.1")
	// the documented defaults keep connections open between shots
	def := DefaultClientConfig().Transport
	vCheck("H6.default.keeps.connections", !def.DisableKeepAlives && def.IdleConnTimeout >= 30*time.Second)
	vObserve("idle", int64(tr.IdleConnTimeout))
	vReach("end")
}
