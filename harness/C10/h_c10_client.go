package phttp

import (
	"bufio"
	"context"
	"fmt"
	"io"
	"net"
	"net/http"
	"net/url"
	"strings"

	"github.com/yandex/pandora/core"
	"github.com/yandex/pandora/core/aggregator/netsample"
	"go.uber.org/zap"
)

// ---- C10/G2 through the real client of the http guns (redirect: false, the default): whatever
// status and Location header the target answers with, the sample carries that status and net
// code 0, and nothing is followed. The transport is the environment: symbolically
// (*http.Transport).RoundTrip is replaced by the stub below (one response, no network); the
// native replay dials an in-memory connection served with the same response.

var c10rt struct {
	status int
	loc    string
	hasLoc bool
	calls  int
}

func vStub___net_http_Transport__RoundTrip(t *http.Transport, req *http.Request) (*http.Response, error) {
	c10rt.calls++
	h := http.Header{}
	if c10rt.hasLoc {
		h["Location"] = []string{c10rt.loc}
	}
	return &http.Response{StatusCode: c10rt.status, ProtoMajor: 1, ProtoMinor: 1, Header: h,
		Body: io.NopCloser(strings.NewReader("")), Request: req}, nil
}

func c10NativeTransport() *http.Transport {
	return &http.Transport{DialContext: func(ctx context.Context, network, addr string) (net.Conn, error) {
		cli, srv := net.Pipe()
		go func() {
			defer srv.Close()
			if _, err := http.ReadRequest(bufio.NewReader(srv)); err != nil {
				return
			}
			c10rt.calls++
			loc := ""
			if c10rt.hasLoc {
				loc = "Location: " + c10rt.loc + "\r\n"
			}
			fmt.Fprintf(srv, "HTTP/1.1 %d X\r\n%sContent-Length: 0\r\nConnection: close\r\n\r\n", c10rt.status, loc)
		}()
		return cli, nil
	}}
}

func HarnessC10NoRedirectClient() {
	c10rt.calls = 0
	c10rt.status = int(vNondetInt("status", 200, 599))
	c10rt.hasLoc = vNondetBool("hasLoc")
	n := int(vConcretize(vNondetInt("loclen", 0, vHi(3, 4))))
	c10rt.loc = vNondetString("loc", n)
	for i := 0; i < n; i++ {
		vAssume(c10rt.loc[i] > ' ' && c10rt.loc[i] < 0x7f) // a printable header value
	}
	tr := &http.Transport{}
	if vNative() {
		tr = c10NativeTransport()
	}
	cl := NewRedirectingClient(tr, false)
	cfg := GunConfig{Target: "target.example:8080", TargetResolved: "10.0.0.1:8080"}
	g := &BaseGun{Config: cfg, Client: cl}
	ag := &hSampleAggr{}
	_ = g.Bind(ag, core.GunDeps{Ctx: context.Background(), Log: zap.NewNop()})
	req := &http.Request{Method: "GET", URL: &url.URL{Path: "/a"}, Header: http.Header{}, ProtoMajor: 1, ProtoMinor: 1}
	g.Shoot(&hHTTPAmmo{req: req, sample: netsample.Acquire("t"), id: 1})
	vCheck("G2.client.one.sample", ag.n == 1)
	if ag.n != 1 {
		return
	}
	vCheck("G2.client.proto.is.status.received", ag.last.ProtoCode() == c10rt.status)
	vCheck("G2.client.net.zero.when.response.received", ag.last.Err() == nil)
	vCheck("G2.client.nothing.followed", c10rt.calls == 1)
	vObserve("proto", int64(ag.last.ProtoCode()))
	vReach("end")
}
