package scenario

import (
	"context"
	"errors"

	"github.com/golang/protobuf/proto"
	"github.com/jhump/protoreflect/desc"
	"github.com/jhump/protoreflect/dynamic"
	"github.com/jhump/protoreflect/dynamic/grpcdynamic"
	"github.com/yandex/pandora/core"
	"github.com/yandex/pandora/core/aggregator/netsample"
	"go.uber.org/zap"
	ggrpc "google.golang.org/grpc"
	"google.golang.org/grpc/codes"
	"google.golang.org/grpc/status"
	"google.golang.org/protobuf/types/descriptorpb"
)

// ---- C10/G5 (gRPC) + C19: one gRPC scenario shot through the real Gun.Shoot/shoot/shootStep;
// the protobuf/reflection calls are harness stubs symbolically, the real library over a fake
// channel natively (as in HarnessC10GrpcShoot).

var y struct {
	statuses []uint32 // status code answered to the i-th call
	calls    []string
	badAt    int // the payload of this call does not fit the message type (-1 never)
}

func vStub___github_com_jhump_protoreflect_desc_MethodDescriptor__GetInputType(md *desc.MethodDescriptor) *desc.MessageDescriptor {
	return nil
}
func vStub___github_com_jhump_protoreflect_desc_MethodDescriptor__GetOutputType(md *desc.MethodDescriptor) *desc.MessageDescriptor {
	return nil
}
func vStub_github_com_jhump_protoreflect_dynamic_NewMessage(md *desc.MessageDescriptor) *dynamic.Message {
	return &dynamic.Message{}
}
func vStub___github_com_jhump_protoreflect_dynamic_Message__UnmarshalJSON(m *dynamic.Message, js []byte) error {
	if string(js) == "bad" {
		return errors.New("message type has no known field named nope")
	}
	return nil
}
func vStub___github_com_jhump_protoreflect_dynamic_Message__ConvertFrom(m *dynamic.Message, target proto.Message) error {
	return nil
}
func vStub___github_com_jhump_protoreflect_dynamic_Message__MarshalJSON(m *dynamic.Message) ([]byte, error) {
	return []byte(`{"f":"r"}`), nil
}
func vStub_encoding_json_Unmarshal(data []byte, v any) error {
	*(v.(*map[string]any)) = map[string]any{"f": "r"}
	return nil
}
func vStub__github_com_jhump_protoreflect_dynamic_grpcdynamic_Stub__InvokeRpc(s grpcdynamic.Stub, ctx context.Context, method *desc.MethodDescriptor, request proto.Message, opts ...ggrpc.CallOption) (proto.Message, error) {
	return yInvoke()
}

func yInvoke() (proto.Message, error) {
	i := len(y.calls)
	y.calls = append(y.calls, "call")
	if c := y.statuses[i%len(y.statuses)]; c != 0 {
		return nil, status.Error(codes.Code(c), "x")
	}
	return &dynamic.Message{}, nil
}

type yChan struct{ out *desc.MessageDescriptor }

func (c yChan) Invoke(ctx context.Context, method string, args, reply any, opts ...ggrpc.CallOption) error {
	_, err := yInvoke()
	if err == nil {
		reply.(*dynamic.Message).SetFieldByName("f", "r")
	}
	return err
}
func (yChan) NewStream(ctx context.Context, d *ggrpc.StreamDesc, method string, opts ...ggrpc.CallOption) (ggrpc.ClientStream, error) {
	return nil, errors.New("no streams")
}

func yNativeMethod() desc.MethodDescriptor {
	str := descriptorpb.FieldDescriptorProto_TYPE_STRING
	opt := descriptorpb.FieldDescriptorProto_LABEL_OPTIONAL
	f := func() []*descriptorpb.FieldDescriptorProto {
		return []*descriptorpb.FieldDescriptorProto{{Name: proto.String("f"), Number: proto.Int32(1), Type: &str, Label: &opt, JsonName: proto.String("f")}}
	}
	fdp := &descriptorpb.FileDescriptorProto{
		Name: proto.String("y.proto"), Package: proto.String("p"), Syntax: proto.String("proto3"),
		MessageType: []*descriptorpb.DescriptorProto{{Name: proto.String("Req"), Field: f()}, {Name: proto.String("Resp"), Field: f()}},
		Service: []*descriptorpb.ServiceDescriptorProto{{Name: proto.String("S"), Method: []*descriptorpb.MethodDescriptorProto{
			{Name: proto.String("M"), InputType: proto.String(".p.Req"), OutputType: proto.String(".p.Resp")}}}},
	}
	fd, err := desc.CreateFileDescriptor(fdp)
	if err != nil {
		panic(err)
	}
	return *fd.FindService("p.S").FindMethodByName("M")
}

type yAggr struct{ samples []*netsample.Sample }

func (a *yAggr) Report(s core.Sample)                                 { a.samples = append(a.samples, s.(*netsample.Sample)) }
func (a *yAggr) Run(ctx context.Context, _ core.AggregatorDeps) error { return nil }

type yTempl struct {
	failAt string
	order  []string
	seen   map[string]map[string]any
}

func (t *yTempl) Apply(payload []byte, metadata map[string]string, vars map[string]any, scenarioName, stepName string) ([]byte, error) {
	t.order = append(t.order, stepName)
	snap := map[string]any{}
	if src, ok := vars["source"].(map[string]any); ok {
		snap["source.k"] = src["k"]
	}
	if rv, ok := vars["request"].(map[string]any); ok {
		for name, sv := range rv {
			if m, ok := sv.(map[string]any); ok {
				if pm, ok := m["postprocessor"].(map[string]any); ok {
					snap[name+".post.f"] = pm["f"]
				}
				if pm, ok := m["preprocessor"].(map[string]any); ok {
					snap[name+".pre"] = pm["pv"]
				}
			}
		}
	}
	t.seen[stepName] = snap
	if t.failAt == stepName {
		return nil, errors.New("template failed")
	}
	return payload, nil
}

type yPre struct{ fail bool }

func (p *yPre) Process(call *Call, vars map[string]any) (map[string]any, error) {
	if p.fail {
		return nil, errors.New("preprocessor failed")
	}
	return map[string]any{"pv": "pv"}, nil
}

type yPost struct{ fail bool }

func (p *yPost) Process(out proto.Message, code int) (map[string]any, error) {
	if p.fail {
		return nil, errors.New("assertion failed")
	}
	return nil, nil
}

type yStorage struct{}

func (yStorage) Variables() map[string]any { return map[string]any{"k": "srcval"} }

func yExpCode(c uint32) int {
	switch c {
	case 0:
		return 200
	case 1:
		return 499
	case 3, 9, 11:
		return 400
	case 4:
		return 504
	case 5:
		return 404
	case 6, 10:
		return 409
	case 7:
		return 403
	case 8:
		return 429
	case 12:
		return 501
	case 14:
		return 503
	case 16:
		return 401
	}
	return 500
}

func HarnessC10GrpcScenarioShot() {
	nSteps := int(vConcretize(vNondetInt("steps", 1, 3)))
	failStep := int(vConcretize(vNondetInt("failStep", -1, int64(nSteps)-1)))
	failKind := vConcretize(vNondetInt("failKind", 0, 4)) // 0 preprocessor 1 template 2 unknown call 3 bad payload 4 assertion
	names := []string{"s0", "s1", "s2"}
	y.calls = nil
	y.statuses = nil
	for i := 0; i < nSteps; i++ {
		// (the whole status table is covered per call in HarnessC10GrpcShoot; here: OK, Unknown, Unavailable)
		y.statuses = append(y.statuses, []uint32{0, 2, 14}[vConcretize(vNondetInt("status", 0, 2))])
	}
	tp := &yTempl{seen: map[string]map[string]any{}}
	var callsL []Call
	for i := 0; i < nSteps; i++ {
		pre, post := &yPre{}, &yPost{}
		c := Call{Name: names[i], Tag: "t" + names[i], Call: "p.S.M", Payload: []byte(`{"f":"x"}`), Metadata: map[string]string{"k": "v"},
			Preprocessors: []Preprocessor{pre}, Postprocessors: []Postprocessor{post}}
		if i == failStep {
			switch failKind {
			case 0:
				pre.fail = true
			case 1:
				tp.failAt = names[i]
			case 2:
				c.Call = "p.S.Nope"
			case 3:
				c.Payload = []byte("bad")
			default:
				post.fail = true
			}
		}
		callsL = append(callsL, c)
	}
	ag := &yAggr{}
	// the gun is built the way the plugin constructor builds it, then wired to the model components
	g := NewGun(GunConfig{Target: "t:1"})
	inner := g.gun
	inner.Aggr, inner.GunDeps, inner.AnswLog = ag, core.GunDeps{Ctx: context.Background(), Log: zap.NewNop()}, zap.NewNop()
	inner.Conf.AnswLog.Enabled = vNondetBool("answlog")
	inner.Conf.AnswLog.Filter = "warning"
	var md desc.MethodDescriptor
	if vNative() {
		md = yNativeMethod()
		inner.Stub = grpcdynamic.NewStub(yChan{})
	}
	inner.Services = map[string]desc.MethodDescriptor{"p.S.M": md}
	g.templ = tp
	g.Shoot(&Scenario{Name: "sc", Calls: callsL, VariableStorage: yStorage{}}) // C19: returns normally

	executed := nSteps
	if failStep >= 0 {
		executed = failStep + 1
	}
	// the failing step reaches the target only when its assertion fails
	sent := executed
	if failStep >= 0 && failKind != 4 {
		sent = failStep
	}
	vCheck("G5.grpc.calls.sent", len(y.calls) == sent)
	vCheck("G5.grpc.one.sample.per.executed.step", len(ag.samples) == executed)
	for i, s := range ag.samples {
		vCheck("G5.grpc.sample.tag", s.Tags() == "sc.t"+names[i])
		if i < sent {
			vCheck("G1.grpc.step.code.is.mapped.status", s.ProtoCode() == yExpCode(y.statuses[i]))
		} else {
			vCheck("G5.grpc.unsent.step.not.a.success", s.ProtoCode() == 0 || s.ProtoCode() >= 400)
		}
	}
	// later steps see the source variables, earlier preprocessor values and earlier answers
	for i := 1; i < len(tp.order); i++ {
		snap := tp.seen[names[i]]
		vCheck("X2.grpc.source.visible", snap["source.k"] == "srcval")
		vCheck("X2.grpc.earlier.preprocessor.visible", snap[names[i-1]+".pre"] == "pv")
		if y.statuses[i-1] == 0 {
			vCheck("X2.grpc.earlier.answer.visible", snap[names[i-1]+".post.f"] == "r")
		}
	}
	// a second scenario that uses the same calls, shot by the same gun: its samples carry its name
	if failStep < 0 {
		before := len(ag.samples)
		g.Shoot(&Scenario{Name: "other", Calls: callsL, VariableStorage: yStorage{}})
		vCheck("G5.grpc.second.scenario.samples", len(ag.samples) == before+nSteps)
		for i := before; i < len(ag.samples); i++ {
			vCheck("G5.grpc.second.scenario.tag", ag.samples[i].Tags() == "other.t"+names[i-before])
		}
	}
	vObserve("samples", int64(len(ag.samples)))
	vReach("end")
}
