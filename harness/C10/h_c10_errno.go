package netsample

import (
	stderrors "errors"
	"net"
	"net/url"
	"os"
	"syscall"

	"github.com/pkg/errors"
)

// ---- C10/G2: the net code of a failed exchange is never 0, and an errno at the bottom of the
// error chain (under any nesting of the wrappers the transports produce) is reported as that
// errno (or as 110 when the chain says "timeout").

type hTimeout struct{}

func (hTimeout) Error() string   { return "i/o timeout" }
func (hTimeout) Timeout() bool   { return true }
func (hTimeout) Temporary() bool { return true }

func HarnessC10Errno() {
	leafKind := vConcretize(vNondetInt("leaf", 0, 3))
	n := vNondetInt("errno", 1, 133)
	var err error
	switch leafKind {
	case 0:
		err = syscall.Errno(n)
	case 1:
		err = hTimeout{}
	case 2:
		err = stderrors.New("connection reset")
	default:
		err = errors.New("with stack")
	}
	// the transports nest net.OpError / os.SyscallError / url.Error around the errno; pandora's own
	// pkg/errors wrappers (WithStack, WithMessage) only ever come on the outside
	inner := int(vConcretize(vNondetInt("inner", 0, 3)))
	for i := 0; i < inner; i++ {
		switch vConcretize(vNondetInt("wrap", 0, 2)) {
		case 0:
			err = &net.OpError{Op: "dial", Net: "tcp", Err: err}
		case 1:
			err = os.NewSyscallError("connect", err)
		default:
			err = &url.Error{Op: "Get", URL: "http://t/", Err: err}
		}
	}
	outer := int(vConcretize(vNondetInt("outer", 0, 2)))
	for i := 0; i < outer; i++ {
		if vNondetBool("withStack") {
			err = errors.WithStack(err)
		} else {
			err = errors.WithMessage(err, "request failed")
		}
	}
	s := Acquire("t")
	s.SetErr(err)
	code := s.get(keyErrno)
	vCheck("G2.net.code.nonzero.on.failure", code != 0)
	if leafKind == 0 {
		vCheck("G2.errno.at.bottom.is.reported", code == int(n) || code == 110)
	}
	vCheck("G2.error.kept", s.Err() == err)
	vObserve("code", int64(code))
	vReach("end")
}
