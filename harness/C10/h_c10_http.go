package phttp

import (
	"context"
	"errors"
	"io"
	"net/http"
	"net/url"
	"strings"

	"github.com/yandex/pandora/core"
	"github.com/yandex/pandora/core/aggregator/netsample"
	"go.uber.org/zap"
)

// ---- C10/G2,G3 + C09/H3 + C19/R1: BaseGun.Shoot against a model client ----

type hErrBody struct{}

func (hErrBody) Read(p []byte) (int, error) { return 0, errors.New("body read failed") }
func (hErrBody) Close() error               { return nil }

type hTimeoutErr struct{}

func (hTimeoutErr) Error() string   { return "i/o timeout" }
func (hTimeoutErr) Timeout() bool   { return true }
func (hTimeoutErr) Temporary() bool { return true }

// hTrackBody remembers whether the response body was read to its end (what lets the transport
// reuse the connection) before it was closed.
type hTrackBody struct {
	r       *strings.Reader
	sawEOF  bool
	closed  int
	earlyCl bool
}

func (b *hTrackBody) Read(p []byte) (int, error) {
	n, err := b.r.Read(p)
	if err == io.EOF {
		b.sawEOF = true
	}
	return n, err
}
func (b *hTrackBody) Close() error {
	b.closed++
	if !b.sawEOF {
		b.earlyCl = true
	}
	return nil
}

type hClient struct {
	track   *hTrackBody
	mode    int64 // 0 response, 1 plain error, 2 timeout error, 3 body read error
	status  int
	calls   int
	got     *http.Request
	scheme  string
	host    string
	urlh    string
	gotBody io.ReadCloser
	sent    []byte // body bytes the client read when the request was handed to it
	sentOK  bool
}

func (c *hClient) Do(req *http.Request) (*http.Response, error) {
	c.calls++
	c.got = req
	c.scheme, c.host, c.urlh = req.URL.Scheme, req.Host, req.URL.Host
	c.gotBody = req.Body
	if req.Body != nil {
		var rerr error
		c.sent, rerr = io.ReadAll(req.Body)
		c.sentOK = rerr == nil
	}
	switch c.mode {
	case 1:
		return nil, errors.New("connection refused")
	case 2:
		return nil, hTimeoutErr{}
	case 3:
		return &http.Response{StatusCode: c.status, Body: hErrBody{}, Request: req}, nil
	}
	c.track = &hTrackBody{r: strings.NewReader("ok")}
	return &http.Response{StatusCode: c.status, Body: c.track, Request: req, ProtoMajor: 1, ProtoMinor: 1}, nil
}
func (c *hClient) CloseIdleConnections() {}

type hHTTPAmmo struct {
	req     *http.Request
	sample  *netsample.Sample
	invalid bool
	id      uint64
}

func (a *hHTTPAmmo) Request() (*http.Request, *netsample.Sample) { return a.req, a.sample }
func (a *hHTTPAmmo) ID() uint64                                  { return a.id }
func (a *hHTTPAmmo) IsInvalid() bool                             { return a.invalid }

type hSampleAggr struct {
	n    int
	last *netsample.Sample
}

func (a *hSampleAggr) Report(s *netsample.Sample)                           { a.n++; a.last = s }
func (a *hSampleAggr) Run(ctx context.Context, _ core.AggregatorDeps) error { return nil }

// DumpRequestOut (answlog) drives a private transport over an in-memory pipe: environment, stubbed
// symbolically (the native replay runs the real one)
func vStub_net_http_httputil_DumpRequestOut(req *http.Request, body bool) ([]byte, error) {
	if body && req.Body != nil {
		b, _ := io.ReadAll(req.Body)
		req.Body = io.NopCloser(strings.NewReader(string(b)))
	}
	return []byte("POST / HTTP/1.1\r\n\r\n"), nil
}

func HarnessC10BaseGunShoot() {
	cl := &hClient{mode: vConcretize(vNondetInt("mode", 0, 3)), status: int(vNondetInt("status", 100, 599))}
	cfg := GunConfig{Target: "target.example:8080", TargetResolved: "10.0.0.1:8080", SSL: vNondetBool("ssl")}
	cfg.AutoTag.Enabled = vNondetBool("autotag")
	cfg.AutoTag.NoTagOnly = vNondetBool("notagonly")
	cfg.AutoTag.URIElements = 1
	// httptrace {trace, dump}, answlog (filter all/warning/error) and debug logging change what is
	// measured and logged, never what is reported
	logMode := vConcretize(vNondetInt("logMode", 0, 5))
	if logMode >= 2 && logMode <= 4 {
		// (the response dump renders the status text: a few representative codes instead of all)
		vAssume(cl.status == 200 || cl.status == 302 || cl.status == 404 || cl.status == 503)
	}
	cfg.HTTPTrace.TraceEnabled = logMode == 1 || logMode == 3
	cfg.HTTPTrace.DumpEnabled = logMode == 2 || logMode == 3
	if logMode == 4 {
		cfg.AnswLog.Enabled = true
		cfg.AnswLog.Filter = []string{"all", "warning", "error"}[vConcretize(vNondetInt("filter", 0, 2))]
	}
	g := &BaseGun{Config: cfg, Client: cl, AnswLog: zap.NewNop()}
	ag := &hSampleAggr{}
	_ = g.Bind(ag, core.GunDeps{Ctx: context.Background(), Log: zap.NewNop()})
	g.DebugLog = logMode == 5
	// the ammo's own tag: none, an ordinary one, or one that happens to contain the auto-tag text
	tag := []string{"", "mytag", "x/a/b"}[vConcretize(vNondetInt("tagKind", 0, 2))]
	hostSet := vNondetBool("hostset")
	host := ""
	if hostSet {
		host = "ammo.example"
	}
	body := io.NopCloser(strings.NewReader("payload"))
	hdr := http.Header{"X-A": []string{"1"}}
	u := &url.URL{Path: "/a/b", RawQuery: "q=1"}
	emptyPath := vNondetBool("emptyPath") // an ammo URI without a path ("http://host?q=1"): nothing to derive a tag from
	if emptyPath {
		// (with a tagged ammo the empty auto-tag is appended as "tag|": not judged here)
		vAssume(tag == "")
		u.Path = ""
	}
	// the spelling of the ammo's request URI: a path written with an escape net/url would not produce
	// itself (`/a/b%2Fc`: Path "/a/b/c" next to RawPath), a bare trailing `?`, user info, a fragment
	spelling := vConcretize(vNondetInt("uriSpelling", 0, 3))
	if !emptyPath {
		switch spelling {
		case 1:
			u.Path, u.RawPath = "/a/b/c", "/a/b%2Fc"
		case 2:
			u.RawQuery, u.ForceQuery = "", true
		case 3:
			u.Opaque = ""
			u.Fragment = "frag"
		}
	}
	wantURI := u.RequestURI()
	wantQuery := u.RawQuery
	req := &http.Request{Method: "POST", URL: u, Header: hdr, Host: host, Body: body}
	invalid := vNondetBool("invalid")
	am := &hHTTPAmmo{req: req, sample: netsample.Acquire(tag), invalid: invalid, id: 7}
	g.Shoot(am)

	vCheck("G2.exactly.one.sample.per.shot", ag.n == 1)
	if ag.n != 1 {
		return
	}
	s := ag.last
	if invalid {
		vCheck("G2.invalid.ammo.not.sent", cl.calls == 0)
		vCheck("G2.invalid.ammo.proto.zero", s.ProtoCode() == 0)
		vReach("end")
		return
	}
	vCheck("G2.one.request", cl.calls == 1)
	switch cl.mode {
	case 0:
		vCheck("G2.proto.is.status", s.ProtoCode() == cl.status)
		vCheck("G2.net.zero.on.response", s.Err() == nil)
		// C09 keep-alive, pandora's part: the response body is read to its end and closed, whatever
		// is logged or traced (an unread body makes the transport drop the connection)
		vCheck("H5.response.body.drained", cl.track != nil && cl.track.sawEOF)
		vCheck("H5.response.body.closed", cl.track != nil && cl.track.closed >= 1)
	case 3:
		vCheck("G2.proto.is.status.bodyerr", s.ProtoCode() == cl.status)
		vCheck("G2.net.nonzero.on.bodyerr", s.Err() != nil)
	case 1:
		vCheck("G2.net.nonzero.on.error", s.Err() != nil)
		vCheck("G2.proto.zero.on.error", s.ProtoCode() == 0)
	case 2:
		vCheck("G2.timeout.recorded", s.Err() != nil)
	}
	// G3 tags
	exp := tag
	if cfg.AutoTag.Enabled && (!cfg.AutoTag.NoTagOnly || tag == "") && !emptyPath {
		if exp == "" {
			exp = "/a"
		} else {
			exp = exp + "|/a"
		}
	}
	if exp == "" {
		exp = EmptyTag
	}
	vCheck("G3.tag", s.Tags() == exp)
	// C09/H3: what is handed to the client
	if cfg.SSL {
		vCheck("H3.scheme.https", cl.scheme == "https")
	} else {
		vCheck("H3.scheme.http", cl.scheme == "http")
	}
	vCheck("H3.connects.to.resolved.target", cl.urlh == "10.0.0.1:8080")
	if hostSet {
		vCheck("H3.host.of.ammo.kept", cl.host == "ammo.example")
	} else {
		vCheck("H3.host.defaults.to.target", cl.host == "target.example")
	}
	vCheck("H3.method.kept", cl.got.Method == "POST")
	vCheck("H3.path.query.kept", cl.got.URL.Path == u.Path && cl.got.URL.RawQuery == wantQuery)
	vCheck("H3.request.uri.as.written", cl.got.URL.RequestURI() == wantURI)
	vCheck("H3.body.bytes.kept", cl.sentOK && string(cl.sent) == "payload")
	if logMode == 0 || logMode == 1 {
		// (dumping / answ logging hands the client an equal copy instead of the ammo's own reader)
		vCheck("H3.body.kept", cl.gotBody == body)
	}
	vCheck("H3.header.kept", len(cl.got.Header) == 1 && cl.got.Header.Get("X-A") == "1")
	vReach("end")
}

// G3: autotag(depth, path) is the prefix of path holding its first `depth` elements.
func HarnessC10Autotag() {
	n := int(vConcretize(vNondetInt("len", 0, vHi(6, 8))))
	path := vNondetString("p", n)
	for i := 0; i < n; i++ {
		vAssume(path[i] == '/' || path[i] == 'a' || path[i] == 'b')
	}
	depth := int(vConcretize(vNondetInt("depth", 1, 3)))
	got := autotag(depth, &url.URL{Path: path})
	// reference: cut before the (depth+1)-th slash
	slashes := 0
	cut := n
	for i := 0; i < n; i++ {
		if path[i] == '/' {
			slashes++
			if slashes == depth+1 {
				cut = i
				break
			}
		}
	}
	vCheck("G3.autotag.is.prefix", got == path[:cut])
	vObserve("cut", int64(cut))
	vReach("end")
}
