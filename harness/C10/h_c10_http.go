package phttp

import (
	"context"
	"errors"
	"io"
	"net/http"
	"net/url"
	"strings"

	"github.com/yandex/pandora/core"
	"github.com/yandex/pandora/core/aggregator/netsample"
	"go.uber.org/zap"
)

// ---- C10/G2,G3 + C09/H3 + C19/R1: BaseGun.Shoot against a model client ----

type hErrBody struct{}

func (hErrBody) Read(p []byte) (int, error) { return 0, errors.New("body read failed") }
func (hErrBody) Close() error               { return nil }

type hTimeoutErr struct{}

func (hTimeoutErr) Error() string   { return "i/o timeout" }
func (hTimeoutErr) Timeout() bool   { return true }
func (hTimeoutErr) Temporary() bool { return true }

type hClient struct {
	mode   int64 // 0 response, 1 plain error, 2 timeout error, 3 body read error
	status int
	calls  int
	got    *http.Request
	scheme string
	host   string
	urlh   string
}

func (c *hClient) Do(req *http.Request) (*http.Response, error) {
	c.calls++
	c.got = req
	c.scheme, c.host, c.urlh = req.URL.Scheme, req.Host, req.URL.Host
	switch c.mode {
	case 1:
		return nil, errors.New("connection refused")
	case 2:
		return nil, hTimeoutErr{}
	case 3:
		return &http.Response{StatusCode: c.status, Body: hErrBody{}}, nil
	}
	return &http.Response{StatusCode: c.status, Body: io.NopCloser(strings.NewReader("ok"))}, nil
}
func (c *hClient) CloseIdleConnections() {}

type hHTTPAmmo struct {
	req     *http.Request
	sample  *netsample.Sample
	invalid bool
	id      uint64
}

func (a *hHTTPAmmo) Request() (*http.Request, *netsample.Sample) { return a.req, a.sample }
func (a *hHTTPAmmo) ID() uint64                                  { return a.id }
func (a *hHTTPAmmo) IsInvalid() bool                             { return a.invalid }

type hSampleAggr struct {
	n    int
	last *netsample.Sample
}

func (a *hSampleAggr) Report(s *netsample.Sample)                           { a.n++; a.last = s }
func (a *hSampleAggr) Run(ctx context.Context, _ core.AggregatorDeps) error { return nil }

func HarnessC10BaseGunShoot() {
	cl := &hClient{mode: vConcretize(vNondetInt("mode", 0, 3)), status: int(vNondetInt("status", 100, 599))}
	cfg := GunConfig{Target: "target.example:8080", TargetResolved: "10.0.0.1:8080", SSL: vNondetBool("ssl")}
	cfg.AutoTag.Enabled = vNondetBool("autotag")
	cfg.AutoTag.NoTagOnly = vNondetBool("notagonly")
	cfg.AutoTag.URIElements = 1
	// httptrace: {trace, dump} change what is measured, never what is reported
	cfg.HTTPTrace.TraceEnabled = vNondetBool("trace")
	cfg.HTTPTrace.DumpEnabled = vNondetBool("dump")
	g := &BaseGun{Config: cfg, Client: cl}
	ag := &hSampleAggr{}
	_ = g.Bind(ag, core.GunDeps{Ctx: context.Background(), Log: zap.NewNop()})
	hasTag := vNondetBool("hastag")
	tag := ""
	if hasTag {
		tag = "mytag"
	}
	hostSet := vNondetBool("hostset")
	host := ""
	if hostSet {
		host = "ammo.example"
	}
	body := io.NopCloser(strings.NewReader("payload"))
	hdr := http.Header{"X-A": []string{"1"}}
	u := &url.URL{Path: "/a/b", RawQuery: "q=1"}
	req := &http.Request{Method: "POST", URL: u, Header: hdr, Host: host, Body: body}
	invalid := vNondetBool("invalid")
	am := &hHTTPAmmo{req: req, sample: netsample.Acquire(tag), invalid: invalid, id: 7}
	g.Shoot(am)

	vCheck("G2.exactly.one.sample.per.shot", ag.n == 1)
	if ag.n != 1 {
		return
	}
	s := ag.last
	if invalid {
		vCheck("G2.invalid.ammo.not.sent", cl.calls == 0)
		vCheck("G2.invalid.ammo.proto.zero", s.ProtoCode() == 0)
		vReach("end")
		return
	}
	vCheck("G2.one.request", cl.calls == 1)
	switch cl.mode {
	case 0:
		vCheck("G2.proto.is.status", s.ProtoCode() == cl.status)
		vCheck("G2.net.zero.on.response", s.Err() == nil)
	case 3:
		vCheck("G2.proto.is.status.bodyerr", s.ProtoCode() == cl.status)
		vCheck("G2.net.nonzero.on.bodyerr", s.Err() != nil)
	case 1:
		vCheck("G2.net.nonzero.on.error", s.Err() != nil)
		vCheck("G2.proto.zero.on.error", s.ProtoCode() == 0)
	case 2:
		vCheck("G2.timeout.recorded", s.Err() != nil)
	}
	// G3 tags
	exp := tag
	if cfg.AutoTag.Enabled && (!cfg.AutoTag.NoTagOnly || tag == "") {
		if exp == "" {
			exp = "/a"
		} else {
			exp = exp + "|/a"
		}
	}
	if exp == "" {
		exp = EmptyTag
	}
	vCheck("G3.tag", s.Tags() == exp)
	// C09/H3: what is handed to the client
	if cfg.SSL {
		vCheck("H3.scheme.https", cl.scheme == "https")
	} else {
		vCheck("H3.scheme.http", cl.scheme == "http")
	}
	vCheck("H3.connects.to.resolved.target", cl.urlh == "10.0.0.1:8080")
	if hostSet {
		vCheck("H3.host.of.ammo.kept", cl.host == "ammo.example")
	} else {
		vCheck("H3.host.defaults.to.target", cl.host == "target.example")
	}
	vCheck("H3.method.kept", cl.got.Method == "POST")
	vCheck("H3.path.query.kept", cl.got.URL.Path == "/a/b" && cl.got.URL.RawQuery == "q=1")
	if cfg.HTTPTrace.DumpEnabled {
		// (dumping reads the body and hands the client an equal copy)
		got, _ := io.ReadAll(cl.got.Body)
		vCheck("H3.body.bytes.kept", string(got) == "payload")
	} else {
		vCheck("H3.body.kept", cl.got.Body == body)
	}
	vCheck("H3.header.kept", len(cl.got.Header) == 1 && cl.got.Header.Get("X-A") == "1")
	vReach("end")
}

// G3: autotag(depth, path) is the prefix of path holding its first `depth` elements.
func HarnessC10Autotag() {
	n := int(vConcretize(vNondetInt("len", 0, vHi(6, 8))))
	path := vNondetString("p", n)
	for i := 0; i < n; i++ {
		vAssume(path[i] == '/' || path[i] == 'a' || path[i] == 'b')
	}
	depth := int(vConcretize(vNondetInt("depth", 1, 3)))
	got := autotag(depth, &url.URL{Path: path})
	// reference: cut before the (depth+1)-th slash
	slashes := 0
	cut := n
	for i := 0; i < n; i++ {
		if path[i] == '/' {
			slashes++
			if slashes == depth+1 {
				cut = i
				break
			}
		}
	}
	vCheck("G3.autotag.is.prefix", got == path[:cut])
	vObserve("cut", int64(cut))
	vReach("end")
}
