package base

import "sync"

// G4: ids handed out by concurrent NextID calls are pairwise distinct.
func HarnessC10NextID() {
	p := &ProviderBase{}
	var wg sync.WaitGroup
	res := make([][]uint64, 3)
	for c := 0; c < 3; c++ {
		res[c] = make([]uint64, 2)
		wg.Add(1)
		go func(c int) {
			defer wg.Done()
			for i := 0; i < 2; i++ {
				res[c][i] = p.NextID()
			}
		}(c)
	}
	wg.Wait()
	seen := map[uint64]bool{}
	for c := 0; c < 3; c++ {
		for i := 0; i < 2; i++ {
			vCheck("G4.ids.distinct", !seen[res[c][i]])
			seen[res[c][i]] = true
		}
	}
	vCheck("G4.ids.count", len(seen) == 6)
	vReach("end")
}
