package grpc

import (
	"google.golang.org/grpc/codes"
	"google.golang.org/grpc/status"
)

// G1: ConvertGrpcStatus equals the documented table for every status code.
func HarnessC10GrpcStatus() {
	code := uint32(vNondetInt("code", 0, 4294967295))
	err := status.Error(codes.Code(code), "x")
	got := ConvertGrpcStatus(err)
	exp := 500
	switch code {
	case 0:
		exp = 200
	case 1:
		exp = 499
	case 3:
		exp = 400
	case 4:
		exp = 504
	case 5:
		exp = 404
	case 6:
		exp = 409
	case 7:
		exp = 403
	case 8:
		exp = 429
	case 9:
		exp = 400
	case 10:
		exp = 409
	case 11:
		exp = 400
	case 12:
		exp = 501
	case 14:
		exp = 503
	case 16:
		exp = 401
	}
	vCheck("G1.grpc.status.table", got == exp)
	vObserve("got", int64(got))
	vReach("end")
}
