package grpc

import (
	"context"
	"errors"

	"github.com/golang/protobuf/proto"
	"github.com/jhump/protoreflect/desc"
	"github.com/jhump/protoreflect/dynamic"
	"github.com/jhump/protoreflect/dynamic/grpcdynamic"
	ammo "github.com/yandex/pandora/components/providers/grpc"
	"github.com/yandex/pandora/core"
	"github.com/yandex/pandora/core/aggregator/netsample"
	"go.uber.org/zap"
	ggrpc "google.golang.org/grpc"
	"google.golang.org/grpc/codes"
	"google.golang.org/grpc/status"
	"google.golang.org/protobuf/types/descriptorpb"
)

// ---- C10/G1,G2 + C19 for the gRPC gun: the real Gun.shoot with the call environment stubbed.
// Symbolically the protobuf/reflection library calls are harness stubs (vStub_*: JSON rendering
// of the payload, the dynamic message, Stub.InvokeRpc returning the chosen status); the native
// replay uses the real library: a method descriptor built from a FileDescriptorProto and a real
// grpcdynamic.Stub over a channel that answers with the same status.

var c10g struct {
	invokeErr  error
	calls      int
	badPayload bool
}

func vStub_encoding_json_Marshal(v any) ([]byte, error) { return []byte("{}"), nil }
func vStub___github_com_jhump_protoreflect_desc_MethodDescriptor__GetInputType(md *desc.MethodDescriptor) *desc.MessageDescriptor {
	return nil
}
func vStub_github_com_jhump_protoreflect_dynamic_NewMessage(md *desc.MessageDescriptor) *dynamic.Message {
	return &dynamic.Message{}
}
func vStub___github_com_jhump_protoreflect_dynamic_Message__UnmarshalJSON(m *dynamic.Message, js []byte) error {
	if c10g.badPayload {
		return errors.New("message type has no known field named nope")
	}
	return nil
}
func vStub__github_com_jhump_protoreflect_dynamic_grpcdynamic_Stub__InvokeRpc(s grpcdynamic.Stub, ctx context.Context, method *desc.MethodDescriptor, request proto.Message, opts ...ggrpc.CallOption) (proto.Message, error) {
	c10g.calls++
	if c10g.invokeErr != nil {
		return nil, c10g.invokeErr
	}
	return &dynamic.Message{}, nil
}

type c10Chan struct{}

func (c10Chan) Invoke(ctx context.Context, method string, args, reply any, opts ...ggrpc.CallOption) error {
	c10g.calls++
	return c10g.invokeErr
}
func (c10Chan) NewStream(ctx context.Context, d *ggrpc.StreamDesc, method string, opts ...ggrpc.CallOption) (ggrpc.ClientStream, error) {
	return nil, errors.New("no streams")
}

func c10NativeMethod() desc.MethodDescriptor {
	str := descriptorpb.FieldDescriptorProto_TYPE_STRING
	opt := descriptorpb.FieldDescriptorProto_LABEL_OPTIONAL
	fdp := &descriptorpb.FileDescriptorProto{
		Name: proto.String("c10.proto"), Package: proto.String("p"), Syntax: proto.String("proto3"),
		MessageType: []*descriptorpb.DescriptorProto{
			{Name: proto.String("Req"), Field: []*descriptorpb.FieldDescriptorProto{{Name: proto.String("f"), Number: proto.Int32(1), Type: &str, Label: &opt, JsonName: proto.String("f")}}},
			{Name: proto.String("Resp")},
		},
		Service: []*descriptorpb.ServiceDescriptorProto{{Name: proto.String("S"), Method: []*descriptorpb.MethodDescriptorProto{
			{Name: proto.String("M"), InputType: proto.String(".p.Req"), OutputType: proto.String(".p.Resp")}}}},
	}
	fd, err := desc.CreateFileDescriptor(fdp)
	if err != nil {
		panic(err)
	}
	return *fd.FindService("p.S").FindMethodByName("M")
}

type c10Aggr struct {
	n    int
	last *netsample.Sample
}

func (a *c10Aggr) Report(s core.Sample)                                 { a.n++; a.last = s.(*netsample.Sample) }
func (a *c10Aggr) Run(ctx context.Context, _ core.AggregatorDeps) error { return nil }

func HarnessC10GrpcShoot() {
	c10g.calls = 0
	code := uint32(vNondetInt("code", 0, 17))
	c10g.invokeErr = nil
	if code != 0 {
		c10g.invokeErr = status.Error(codes.Code(code), "x")
	}
	c10g.badPayload = vNondetBool("badPayload")
	unknownCall := vNondetBool("unknownCall")
	conf := GunConfig{Target: "t:1"}
	conf.AnswLog.Enabled = vNondetBool("answlog")
	conf.AnswLog.Filter = []string{"all", "warning", "error"}[vConcretize(vNondetInt("filter", 0, 2))]
	g := &Gun{Conf: conf, AnswLog: zap.NewNop()}
	ag := &c10Aggr{}
	g.Aggr = ag
	g.GunDeps = core.GunDeps{Ctx: context.Background(), Log: zap.NewNop()}
	var md desc.MethodDescriptor
	if vNative() {
		md = c10NativeMethod()
		g.Stub = grpcdynamic.NewStub(c10Chan{})
	}
	g.Services = map[string]desc.MethodDescriptor{"p.S.M": md}
	tag, wantTag := "tg", "tg"
	if vNondetBool("untagged") {
		tag, wantTag = "", "__EMPTY__" // an entry without a tag is reported under __EMPTY__, as the HTTP guns do
	}
	am := &ammo.Ammo{Tag: tag, Call: "p.S.M", Payload: map[string]interface{}{"f": "x"}, Metadata: map[string]string{"k": "v"}}
	if unknownCall {
		am.Call = "p.S.Nope"
	}
	if c10g.badPayload {
		am.Payload = map[string]interface{}{"nope": 1}
	}
	g.Shoot(am) // C19: returns normally whatever the call answers

	vCheck("G2.grpc.one.sample.per.shot", ag.n == 1)
	if ag.n != 1 {
		return
	}
	exp := 500
	switch code {
	case 0:
		exp = 200
	case 1:
		exp = 499
	case 3, 9, 11:
		exp = 400
	case 4:
		exp = 504
	case 5:
		exp = 404
	case 6, 10:
		exp = 409
	case 7:
		exp = 403
	case 8:
		exp = 429
	case 12:
		exp = 501
	case 14:
		exp = 503
	case 16:
		exp = 401
	}
	switch {
	case unknownCall:
		vCheck("G2.grpc.unknown.call.not.sent", c10g.calls == 0)
		vCheck("G2.grpc.unknown.call.code.zero", ag.last.ProtoCode() == 0)
	case c10g.badPayload:
		vCheck("G2.grpc.bad.payload.not.sent", c10g.calls == 0)
		// (the property fixes no code for a request that was never sent; it must not look like a success)
		vCheck("G2.grpc.bad.payload.not.a.success", ag.last.ProtoCode() == 0 || ag.last.ProtoCode() >= 400)
	default:
		vCheck("G2.grpc.one.call", c10g.calls == 1)
		vCheck("G1.grpc.sample.code.is.mapped.status", ag.last.ProtoCode() == exp)
	}
	vCheck("G3.grpc.tag.is.ammo.tag", ag.last.Tags() == wantTag)
	vObserve("proto", int64(ag.last.ProtoCode()))
	vReach("end")
}
