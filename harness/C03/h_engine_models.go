package engine

import (
	"sync/atomic"
	"context"
	"sync"
	"time"

	"github.com/yandex/pandora/core"
	"github.com/yandex/pandora/core/aggregator/netsample"
	"github.com/yandex/pandora/lib/monitoring"
)

// ---- model components shared by the engine-package harnesses (C03, C04/W3/W5, C05, C12) ----

type hAmmo struct {
	id       int
	released int
	inUse    bool
	shot     int
}

type hProvider struct {
	mu       sync.Mutex
	q        chan core.Ammo
	acquired int
	released int
	runErr   error // returned by Run (fault plan)
	failAt   int   // Run fails after this many items were put (-1: never)
	items    int   // items to deliver in Run mode
	runDone  bool
	failed   bool // Run actually returned runErr
	// failOnStop: the ammo source delivers everything, signals the end of ammo, and fails when it
	// is shut down (e.g. closing the ammo file fails): Run returns runErr once ctx is done
	failOnStop bool
}

func newHProviderFilled(m int) *hProvider {
	p := &hProvider{q: make(chan core.Ammo, 8), failAt: -1}
	for i := 0; i < m; i++ {
		p.q <- &hAmmo{id: i}
	}
	close(p.q)
	return p
}

func (p *hProvider) Acquire() (core.Ammo, bool) {
	a, ok := <-p.q
	if ok {
		p.mu.Lock()
		p.acquired++
		p.mu.Unlock()
	}
	return a, ok
}

func (p *hProvider) Release(a core.Ammo) {
	am := a.(*hAmmo)
	p.mu.Lock()
	am.released++
	vCheck("A2.released.once", am.released == 1)
	vCheck("A2.not.released.while.in.use", !am.inUse)
	p.released++
	p.mu.Unlock()
}

// Run delivers p.items ammo, then closes the queue (clean end of ammo); honours ctx.
func (p *hProvider) Run(ctx context.Context, _ core.ProviderDeps) error {
	defer func() { p.runDone = true }()
	closed := false
	defer func() {
		if !closed {
			close(p.q)
		}
	}()
	if p.failOnStop {
		for i := 0; i < p.items; i++ {
			select {
			case p.q <- &hAmmo{id: i}:
			case <-ctx.Done():
				p.failed = true
				return p.runErr
			}
		}
		closed = true
		close(p.q)
		<-ctx.Done()
		p.failed = true
		return p.runErr
	}
	for i := 0; i < p.items; i++ {
		if p.failAt == i {
			p.failed = true
			return p.runErr
		}
		select {
		case p.q <- &hAmmo{id: i}:
		case <-ctx.Done():
			return nil
		}
	}
	if p.failAt == p.items {
		p.failed = true
		return p.runErr
	}
	return nil
}

type hAggregator struct {
	mu           sync.Mutex
	reports      int
	discards     int
	runErr       error // returned when Run ends (fault plan: e.g. dropped samples)
	failEarly    bool  // Run returns runErr immediately instead of at the end
	runDone      bool
	ctxDoneAt    int // number of instance Run calls that had returned when ctx was cancelled (E6)
	lateOK       *bool
	lastTok      *int64
	callerCancel *atomic.Bool
	metrics      *Metrics // when set: E6 is checked at the moment the aggregator is cancelled
}

func (a *hAggregator) Report(s core.Sample) {
	a.mu.Lock()
	a.reports++
	if ns, ok := s.(*netsample.Sample); ok && ns.Tags() == netsample.DiscardedShootTag {
		a.discards++
		if a.lastTok != nil {
			vCheck("W5.discarded.only.when.2s.late", vClock()-*a.lastTok >= 2_000_000_000)
		}
	}
	a.mu.Unlock()
}

func (a *hAggregator) Run(ctx context.Context, _ core.AggregatorDeps) error {
	defer func() { a.runDone = true }()
	if a.failEarly {
		return a.runErr
	}
	<-ctx.Done()
	if a.metrics != nil {
		// C05/E6, C06: the engine cancels the aggregator only after every instance it started has
		// returned (otherwise samples of shots still in flight are lost)
		vCheck("E6.aggregator.cancelled.only.after.instances.finished",
			a.metrics.InstanceStart.Get() == a.metrics.InstanceFinish.Get() || a.parentCancelled())
	}
	return a.runErr
}

// parentCancelled: the harness marks a caller-initiated cancel (then everything stops at once).
func (a *hAggregator) parentCancelled() bool { return a.callerCancel != nil && a.callerCancel.Load() }

type hGun struct {
	mu      *sync.Mutex
	shots   *int
	busy    bool
	closed  int
	bound   int
	id      int
	panicAt int // panics on its n-th shot (1-based), 0: never
	n       int
	bindErr error
	lastTok *int64 // token time of the owning instance (W5)
	discard bool
	rtMax   int64
}

func (g *hGun) Bind(_ core.Aggregator, deps core.GunDeps) error {
	g.bound++
	g.id = deps.InstanceID
	return g.bindErr
}

func (g *hGun) Shoot(a core.Ammo) {
	am := a.(*hAmmo)
	vCheck("C11.gun.never.fires.concurrently", !g.busy)
	g.busy = true
	vCheck("A2.not.used.after.release", am.released == 0)
	vCheck("A2.ammo.not.shared", !am.inUse)
	am.inUse = true
	if g.lastTok != nil {
		now := vClock()
		vCheck("W5.no.early.shot", now >= *g.lastTok)
		if g.discard {
			vCheck("W5.fired.only.when.less.than.2s.late", now-*g.lastTok < 2_000_000_000)
		}
	}
	g.n++
	if g.panicAt == g.n {
		am.inUse = false
		g.busy = false
		panic("model gun panic")
	}
	if g.rtMax > 0 {
		vAdvanceClock(vNondetInt("rt", 0, g.rtMax)) // response time
	}
	g.mu.Lock()
	*g.shots++
	am.shot++
	g.mu.Unlock()
	am.inUse = false
	g.busy = false
}

func (g *hGun) Close() error {
	g.closed++
	return nil
}

func hMetrics() Metrics {
	return Metrics{Request: &monitoring.Counter{}, Response: &monitoring.Counter{},
		InstanceStart: &monitoring.Counter{}, InstanceFinish: &monitoring.Counter{}}
}

// hTokSched wraps a schedule and records the time of the last token handed out through it.
type hTokSched struct {
	core.Schedule
	last *int64
}

func (s *hTokSched) Next() (time.Time, bool) {
	tx, ok := s.Schedule.Next()
	if ok {
		*s.last = vTimeNs(tx)
	}
	return tx, ok
}

// hSeqSched: a model schedule with arbitrary non-decreasing token times.
type hSeqSched struct {
	mu    sync.Mutex
	times []int64
	i     int
	fin   int64
}

func (s *hSeqSched) Start(time.Time) {}
func (s *hSeqSched) Next() (time.Time, bool) {
	s.mu.Lock()
	defer s.mu.Unlock()
	if s.i >= len(s.times) {
		return vTimeAt(s.fin), false
	}
	t := s.times[s.i]
	s.i++
	return vTimeAt(t), true
}
func (s *hSeqSched) Left() int {
	s.mu.Lock()
	defer s.mu.Unlock()
	return len(s.times) - s.i
}
