package engine

import (
	"context"
	"sync"
	"time"

	"github.com/yandex/pandora/core"
	"github.com/yandex/pandora/core/schedule"
	"go.uber.org/zap"
)

// ---- C03: shot accounting of N instances over one provider ----

func c03Run(nInst int, shared bool) { c03RunShape(nInst, shared, false) }

// composite: the shared profile is a list of three small parts (instances meet at part boundaries)
func c03RunShape(nInst int, shared, composite bool) {
	k := vConcretize(vNondetInt("k", 0, 2))
	var parts [3]int64
	if composite {
		k = 0
		for i := range parts {
			parts[i] = vConcretize(vNondetInt("part", 0, 1))
			k += parts[i]
		}
		vAssume(k >= 2)
	}
	m := int(vConcretize(vNondetInt("m", 0, 3)))
	discard := vNondetBool("discardOverflow")
	if c03Deep {
		vAssume(k == 1 && m == 3 && !discard)
		vFreezeClock()
	}
	if composite {
		vAssume(m >= 2 && !discard) // ammo binding or equal to the tokens; nothing discarded
		vFreezeClock()
	}
	prov := newHProviderFilled(m)
	aggr := &hAggregator{}
	metrics := hMetrics()
	var gmu sync.Mutex
	shots := 0
	var sharedSched core.Schedule
	if shared {
		sharedSched = schedule.NewOnce(k)
		if composite {
			sharedSched = schedule.NewComposite(schedule.NewOnce(parts[0]), schedule.NewOnce(parts[1]), schedule.NewOnce(parts[2]))
		}
	}
	ctx := context.Background()
	var wg sync.WaitGroup
	guns := make([]*hGun, nInst)
	errs := make([]error, nInst)
	for i := 0; i < nInst; i++ {
		guns[i] = &hGun{mu: &gmu, shots: &shots}
		sch := sharedSched
		if !shared {
			sch = schedule.NewOnce(k)
		}
		inst := &instance{log: zap.NewNop(), id: i, gun: guns[i], schedule: sch,
			instanceSharedDeps: instanceSharedDeps{provider: prov, metrics: metrics, aggregator: aggr, discardOverflow: discard}}
		wg.Add(1)
		go func(i int) {
			defer wg.Done()
			errs[i] = inst.Run(ctx)
		}(i)
	}
	wg.Wait()
	T := int(k)
	if !shared {
		T = nInst * int(k)
	}
	exp := T
	if m < exp {
		exp = m
	}
	vCheck("A1.shots.plus.discards", shots+aggr.discards == exp)
	vCheck("A2.release.equals.acquire", prov.released == prov.acquired)
	unfired := prov.acquired - shots - aggr.discards
	if shared {
		vCheck("A3.unfired.at.most.n.minus.1", unfired >= 0 && unfired <= nInst-1)
	} else {
		vCheck("A3.unfired.none", unfired == 0)
	}
	vCheck("A4.request.counter", metrics.Request.Get() == int64(shots))
	vCheck("A4.response.counter", metrics.Response.Get() == int64(shots))
	vCheck("A4.instance.start", metrics.InstanceStart.Get() == int64(nInst))
	vCheck("A4.instance.finish", metrics.InstanceFinish.Get() == int64(nInst))
	if !discard {
		vCheck("W3.nothing.discarded.when.off", aggr.discards == 0)
	}
	for i := 0; i < nInst; i++ {
		vCheck("A5.instance.result", errs[i] == nil || errs[i] == outOfAmmoErr)
	}
	vObserve("shots", int64(shots))
	vReach("end")
}

func HarnessC03Shared1()      { c03Run(1, true) }
func HarnessC03Shared2()      { c03Run(2, true) }
func HarnessC03PerInstance2() { c03Run(2, false) }
func HarnessC03Shared3()      { c03Run(3, true) }

func HarnessC03SharedComposite2() { c03RunShape(2, true, true) }

// one token, three items, two instances, three scheduling delays: deep enough for an instance to
// look at the shared profile in the middle of the other one's failing Next()
func HarnessC03Shared2Deep() {
	c03Deep = true
	defer func() { c03Deep = false }()
	c03RunShape(2, true, false)
}

var c03Deep bool

// A panicking Shoot still releases its ammo and turns into an instance error.
func HarnessC03ShootPanic() {
	prov := newHProviderFilled(2)
	aggr := &hAggregator{}
	metrics := hMetrics()
	var gmu sync.Mutex
	shots := 0
	gun := &hGun{mu: &gmu, shots: &shots, panicAt: int(vConcretize(vNondetInt("panicAt", 1, 2)))}
	inst := &instance{log: zap.NewNop(), id: 0, gun: gun, schedule: schedule.NewOnce(2),
		instanceSharedDeps: instanceSharedDeps{provider: prov, metrics: metrics, aggregator: aggr}}
	err := inst.Run(context.Background())
	vCheck("A5.panic.becomes.error", err != nil && err != outOfAmmoErr)
	vCheck("A5.ammo.released.after.panic", prov.released == prov.acquired)
	vCheck("A5.instance.finish.counted", metrics.InstanceFinish.Get() == 1)
	vReach("end")
}

// C04/W5: along real histories of instance.Run (one instance, arbitrary non-decreasing token
// times, arbitrary response times): never early; with discard_overflow fired iff < 2s late.
func HarnessC04RunHistory() {
	nTok := int(vConcretize(vNondetInt("ntok", 1, 3)))
	discard := vNondetBool("discardOverflow")
	t0 := int64(1_500_000_000_000_000_000)
	vSetClock(t0)
	vTimerLateMax(1_999_999_999)
	seq := &hSeqSched{}
	tt := t0
	for j := 0; j < nTok; j++ {
		tt += vNondetInt("gap", 0, 5_000_000_000)
		seq.times = append(seq.times, tt)
	}
	seq.fin = tt
	var last int64
	sch := &hTokSched{Schedule: seq, last: &last}
	prov := newHProviderFilled(nTok)
	aggr := &hAggregator{lastTok: &last}
	var gmu sync.Mutex
	shots := 0
	gun := &hGun{mu: &gmu, shots: &shots, lastTok: &last, discard: discard, rtMax: 10_000_000_000}
	metrics := hMetrics()
	inst := &instance{log: zap.NewNop(), id: 0, gun: gun, schedule: sch,
		instanceSharedDeps: instanceSharedDeps{provider: prov, metrics: metrics, aggregator: aggr, discardOverflow: discard}}
	err := inst.Run(context.Background())
	vCheck("W5.run.ok", err == nil || err == outOfAmmoErr)
	vCheck("W5.every.token.fired.or.discarded", shots+aggr.discards == nTok)
	if !discard {
		vCheck("W3.every.token.fired", shots == nTok)
	}
	vReach("end")
}

// Pool level: ammo is the binding bound while instance start is still ramping up and another
// instance already holds an item and waits for its (timed) token.
func HarnessC03PoolRampOutOfAmmo() { c03PoolRamp(false) }

// the same pool with lazy timers (a pause ends only when nobody has work left) and 1-3 items
func HarnessC03PoolRampLazy() { c03PoolRamp(true) }

func c03PoolRamp(lazy bool) {
	// interleavings are the subject here, not durations: concrete pauses, frozen clock
	d1, d2 := time.Second, time.Second
	vFreezeClock()
	items := 1
	if lazy {
		vLazyTimers()
		items = int(vConcretize(vNondetInt("items", 1, 3)))
	} else if vThorough() {
		items = int(vConcretize(vNondetInt("items", 1, 2)))
	}
	prov := &hProvider{q: make(chan core.Ammo, 1), items: items, failAt: -1}
	metrics := hMetrics()
	aggr := &hAggregator{metrics: &metrics}
	var gmu sync.Mutex
	shots := 0
	guns := 0
	conf := InstancePoolConfig{ID: "p", Provider: prov, Aggregator: aggr, RPSPerInstance: true,
		NewGun: func() (core.Gun, error) { gmu.Lock(); guns++; gmu.Unlock(); return &hGun{mu: &gmu, shots: &shots}, nil },
		NewRPSSchedule: func() (core.Schedule, error) {
			return schedule.NewComposite(schedule.NewConst(0, d2), schedule.NewOnce(1)), nil
		},
		StartupSchedule: schedule.NewComposite(schedule.NewOnce(2), schedule.NewConst(0, d1), schedule.NewOnce(1))}
	p := newPool(zap.NewNop(), metrics, func() {}, conf)
	err := p.Run(context.Background())
	vCheck("A0.pool.ok", err == nil)
	started := int(metrics.InstanceStart.Get())
	exp := started // one token per started instance
	if items < exp {
		exp = items
	}
	vCheck("A1.shots.equal.min.tokens.ammo", shots+aggr.discards == exp)
	vCheck("A2.release.equals.acquire", prov.released == prov.acquired)
	vCheck("A3.per.instance.none.unfired", prov.acquired == shots+aggr.discards)
	vCheck("A4.counters", metrics.Request.Get() == int64(shots) && metrics.InstanceFinish.Get() == int64(started))
	vReach("end")
}
