package math

import (
	"errors"
	"fmt"
	"strconv"
	"strings"
	"sync"
	"time"
)

// ---- engine self-check: Go semantics the SSA->SMT translation must get right. Inputs are
// symbolic (small ranges); every observation predicted by the solver for the explored path
// is compared with the natively compiled run of this same function. ----

type selfPt struct{ x, y int }

func (p selfPt) sum() int   { return p.x + p.y }
func (p *selfPt) bump()     { p.x++ }
func selfDiv(a, b int) (q int, err error) {
	defer func() {
		if r := recover(); r != nil {
			err = errors.New("div panic")
			q = -1
		}
	}()
	return a / b, nil
}

type selfErr struct{ code int }

func (e *selfErr) Error() string { return "self " + strconv.Itoa(e.code) }

func HarnessSelfArith() {
	a := vNondetInt("a", -20, 20)
	b := vNondetInt("b", -7, 7)
	vAssume(b != 0)
	vObserve("quo", a/b)
	vObserve("rem", a%b)
	vObserve("i8", int64(int8(a*13)))
	vObserve("u8", int64(uint8(a)))
	vObserve("u32neg", int64(uint32(int32(a))))
	vObserve("shl", a<<3)
	vObserve("shr", a>>1)
	vObserve("ushr", int64(uint64(a)>>60))
	vObserve("and", a&0xf)
	vObserve("or", int64(uint8(a)|0x81))
	vObserve("xor", int64(uint8(a)^0xff))
	vObserve("andnot", int64(uint8(a)&^0x0f))
	vObserve("not", ^a)
	vObserve("neg", -a)
	u := uint64(a)
	vObserve("wrap", int64(u*3+7)&0xffff)
	var m int64 = 1 << 62
	vObserve("ovf", m*int64(b)+m)
	f := float64(a) / 4
	vObserve("trunc", int64(f))
	vObserve("cmp", selfB(f < float64(b)))
	q, err := selfDiv(int(a), int(b)-int(b))
	vObserve("divzero", int64(q))
	vObserve("diverr", selfB(err != nil))
	vReach("end")
}

func selfB(b bool) int64 {
	if b {
		return 1
	}
	return 0
}

func HarnessSelfStrings() {
	n := int(vConcretize(vNondetInt("n", 0, 4)))
	s := vNondetString("s", n)
	for i := 0; i < n; i++ {
		vAssume(s[i] == 'a' || s[i] == ' ' || s[i] == ',' || s[i] == '7')
	}
	t := strings.TrimSpace(s)
	vObserve("trimlen", int64(len(t)))
	parts := strings.Split(s, ",")
	vObserve("parts", int64(len(parts)))
	vObserve("idx", int64(strings.Index(s, "a,")))
	vObserve("idxb", int64(strings.IndexByte(s, '7')))
	vObserve("cnt", int64(strings.Count(s, "a")))
	vObserve("has", selfB(strings.HasPrefix(s, "a")))
	vObserve("cmp", selfB(s < "a7"))
	vObserve("eq", selfB(s+"x" == "a x"))
	v, err := strconv.Atoi(t)
	if err == nil {
		vObserve("atoi", int64(v))
	} else {
		vObserve("atoi", -1)
	}
	up := strings.ToUpper(s)
	vObserve("upper", selfB(up == strings.Repeat("A", n)))
	b := []byte(s)
	if n > 1 {
		b[0], b[1] = b[1], b[0]
	}
	vObserve("swap", selfB(string(b) == s))
	k, val, ok := strings.Cut(s, " ")
	vObserve("cut", int64(len(k)*10+len(val))+selfB(ok)*100)
	vReach("end")
}

func HarnessSelfData() {
	a := int(vNondetInt("a", 0, 5))
	// slices: append aliasing and copy
	base := make([]int, 2, 4)
	base[0], base[1] = 1, 2
	s1 := append(base, a)
	s2 := append(base, 9)
	vObserve("alias", int64(s1[2]))
	s3 := append(s2, 1, 2, 3)
	s3[0] = 42
	vObserve("noalias", int64(base[0]))
	cp := make([]int, 2)
	n := copy(cp, s3[1:])
	vObserve("copy", int64(n*100+cp[0]*10+cp[1]))
	// maps
	m := map[string]int{"x": 1}
	m["y"] = a
	m["x"] += 2
	delete(m, "z")
	_, okz := m["z"]
	vObserve("map", int64(m["x"]*100+m["y"]*10+len(m))+selfB(okz))
	keys := 0
	for k, v := range m {
		keys += len(k) + v
	}
	vObserve("range", int64(keys))
	// structs and arrays are values
	p := selfPt{a, 2}
	q := p
	q.bump()
	arr := [3]int{a, 1, 2}
	arr2 := arr
	arr2[0] = 7
	vObserve("value", int64(p.x*1000+q.x*100+arr[0]*10+arr2[0]))
	f := p.sum
	p.x = 100
	vObserve("methodvalue", int64(f()))
	// closures capture variables, defers run LIFO
	order := 0
	func() {
		for i := 0; i < 3; i++ {
			defer func(k int) { order = order*10 + k }(i)
		}
	}()
	vObserve("defer", int64(order))
	cnt := 0
	inc := func() { cnt += a }
	inc()
	inc()
	vObserve("closure", int64(cnt))
	// interfaces, type switches, errors
	var e error = &selfErr{a}
	w := fmt.Errorf("wrap: %w", e)
	var se *selfErr
	vObserve("as", selfB(errors.As(w, &se) && se.code == a))
	vObserve("is", selfB(errors.Is(w, e)))
	var any interface{} = a
	sw := 0
	switch x := any.(type) {
	case string:
		sw = 1
	case int:
		sw = 2 + x
	}
	vObserve("switch", int64(sw))
	// time
	t0 := time.Unix(100, 0)
	t1 := t0.Add(time.Duration(a) * time.Second)
	vObserve("time", int64(t1.Sub(t0)/time.Millisecond)+selfB(t1.After(t0)))
	// goroutines, channels, select
	ch := make(chan int, 1)
	var wg sync.WaitGroup
	wg.Add(1)
	go func() { defer wg.Done(); ch <- a * 2 }()
	wg.Wait()
	got := -1
	select {
	case v := <-ch:
		got = v
	default:
	}
	vObserve("chan", int64(got))
	vReach("end")
}

// decimal formatting contract over the whole int64 range (incl. MinInt64): what FormatInt
// renders, ParseInt reads back
func HarnessSelfDecimal() {
	x := vNondetInt("x", -9223372036854775808, 9223372036854775807)
	s := strconv.FormatInt(x, 10)
	y, err := strconv.ParseInt(s, 10, 64)
	vCheck("self.decimal.roundtrip", err == nil && y == x)
	vObserve("len", int64(len(s)))
	vObserve("neg", int64(strings.Count(s, "-")))
	vReach("end")
}
