package schedule

import (
	"sync"
	"time"

	"github.com/yandex/pandora/core"
)

// ---- C01: const / line / step / once profiles realise the configured load ----
// Floats are encoded as exact reals (see DESIGN 2.3); rates are q/16 so that a model is an
// exactly representable float64 for the native replay.

func c01Dur() time.Duration {
	if vThorough() {
		return c01DurWide()
	}
	sec := vNondetInt("sec", 0, 3600)
	ns := vNondetInt("ns", 0, 999_999_999)
	dur := time.Duration(sec*1_000_000_000 + ns)
	vAssume(dur >= time.Millisecond)
	return dur
}

// thorough tier: durations up to 24h
func c01DurWide() time.Duration {
	sec := vNondetInt("sec", 0, 86400)
	ns := vNondetInt("ns", 0, 999_999_999)
	dur := time.Duration(sec*1_000_000_000 + ns)
	vAssume(dur >= time.Millisecond)
	return dur
}

// const: count = floor(ops*dur), token k at floor(k/ops) ns, inside [0,dur]; finish = t0+dur.
func HarnessC01Const() {
	ops := vNondetRatio("ops", 0, 16_000_000, 16) // [0, 1e6]
	dur := c01Dur()
	t0 := vNondetTime("t0")
	sch := NewConst(ops, dur)
	vCheck("const.left.before.start", int64(sch.Left()) == sch.(*doAtSchedule).n)
	s := sch.(*doAtSchedule)
	n := s.n
	vObserve("n", n)
	vCheck("const.n.nonneg", n >= 0)
	I := ops * float64(dur) / 1e9
	vCheck("const.count.lower", float64(n) <= I)
	vCheck("const.count.upper", I < float64(n)+1)
	s.Start(t0)
	k := vNondetInt("k", 0, 1<<53)
	s.i.Store(k)
	tx, ok := s.Next()
	if k < n {
		vCheck("const.ok", ok)
		off := vTimeNs(tx) - vTimeNs(t0)
		vObserve("off", off)
		vCheck("const.time.after.start", off >= 0)
		vCheck("const.time.before.end", off <= int64(dur))
		exact := float64(k) * 1e9 / ops
		vCheck("const.time.lo", float64(off) <= exact)
		vCheck("const.time.hi", exact < float64(off)+1)
		vReach("token")
	} else {
		vCheck("const.finish.notok", !ok)
		vCheck("const.finish.time", vTimeNs(tx) == vTimeNs(t0)+int64(dur))
		vReach("finish")
	}
}

// line.count: n = floor((from+to)/2 * dur).
func HarnessC01LineCount() {
	from := vNondetRatio("from", 0, 160_000, 16)
	to := vNondetRatio("to", 0, 160_000, 16)
	vAssume(from != to)
	dur := c01Dur()
	s := NewLine(from, to, dur).(*doAtSchedule)
	n := s.n
	vObserve("n", n)
	I := (from + to) / 2 * float64(dur) / 1e9
	vCheck("line.count.lower", float64(n) <= I)
	vCheck("line.count.upper", I < float64(n)+1)
	vCheck("line.duration", s.duration == dur)
	vReach("end")
}

// line.time: token k is at the (unique) instant x in [0,dur] with from*x + a*x^2/2 = k,
// a = (to-from)/dur, up to 1 microsecond; never before start or after start+dur.
func HarnessC01LineTime() {
	from := vNondetRatio("from", 0, 16_000, 16)
	to := vNondetRatio("to", 0, 16_000, 16)
	vAssume(from != to)
	dur := c01Dur()
	t0 := vNondetTime("t0")
	s := NewLine(from, to, dur).(*doAtSchedule)
	n := s.n
	s.Start(t0)
	k := vNondetInt("k", 0, 1<<40)
	vAssume(k < n)
	// (k < n stated on the real integral as well: the harness runs with relaxed truncation,
	// where n is only known to lie in (I-1, I])
	vAssume(float64(k)+1 <= (from+to)/2*float64(dur)/1e9)
	s.i.Store(k)
	tx, ok := s.Next()
	vCheck("line.ok", ok)
	off := vTimeNs(tx) - vTimeNs(t0)
	vObserve("off", off)
	vCheck("line.time.after.start", off >= 0)
	vCheck("line.time.before.end", off <= int64(dur))
	// oracle: x seconds, 0 <= x <= xn, F(x) = k
	xn := float64(dur) / 1e9
	a := (to - from) / xn
	var x float64
	if vNative() {
		// native replay: bisection for the root of F(x) = k on [0, xn] (F is non-decreasing there)
		lo, hi := 0.0, xn
		for it := 0; it < 200; it++ {
			mid := (lo + hi) / 2
			if a*mid*mid/2+from*mid < float64(k) {
				lo = mid
			} else {
				hi = mid
			}
		}
		x = hi
	} else {
		x = vNondetReal("x")
		vAssume(x >= 0 && x <= xn)
		vAssume(a*x*x/2+from*x == float64(k))
	}
	d := float64(off) - x*1e9
	vCheck("line.time.close.lo", d > -1000)
	vCheck("line.time.close.hi", d < 1000)
	vReach("end")
}

// line with from == to is the const profile.
func HarnessC01LineFlat() {
	r := vNondetRatio("r", 0, 160_000, 16)
	dur := c01Dur()
	s := NewLine(r, r, dur).(*doAtSchedule)
	I := r * float64(dur) / 1e9
	vCheck("flat.count.lower", float64(s.n) <= I)
	vCheck("flat.count.upper", I < float64(s.n)+1)
	vReach("end")
}

// once: all tokens at the start instant, finish = start.
func HarnessC01Once() {
	n := vNondetInt("n", 0, 1<<40)
	t0 := vNondetTime("t0")
	sch := NewOnce(n)
	vCheck("once.left", int64(sch.Left()) == n)
	s := sch.(*doAtSchedule)
	s.Start(t0)
	k := vNondetInt("k", 0, 1<<41)
	s.i.Store(k)
	tx, ok := s.Next()
	vCheck("once.ok.iff", ok == (k < n))
	vCheck("once.time", vTimeNs(tx) == vTimeNs(t0))
	vReach("end")
}

// step: the succession of one const profile per level (<= 4 levels).
func HarnessC01Step() {
	from := vNondetRatio("from", 0, 1600, 16)
	step := vNondetInt("step", 1, 50)
	to := vNondetRatio("to", 0, 1600, 16)
	vAssume(from <= to)
	vAssume(to-from < float64(4*step))
	dur := c01Dur()
	t0 := vNondetTime("t0")
	sch := NewStep(from, to, step, dur)
	// expected levels
	var rates []float64
	if from == to {
		rates = []float64{from}
	} else {
		for r := from; r <= to; r += float64(step) {
			rates = append(rates, r)
		}
	}
	L := len(rates)
	vObserve("levels", int64(L))
	var parts []core.Schedule
	switch s := sch.(type) {
	case *compositeSchedule:
		parts = append(parts, s.scheds...)
	default:
		parts = []core.Schedule{sch}
	}
	vCheck("step.levels", len(parts) == L)
	if len(parts) != L {
		return
	}
	total := int64(0)
	for j, p := range parts {
		d := p.(*doAtSchedule)
		I := rates[j] * float64(dur) / 1e9
		vCheck("step.part.count.lower", float64(d.n) <= I)
		vCheck("step.part.count.upper", I < float64(d.n)+1)
		vCheck("step.part.duration", d.duration == dur)
		total += d.n
	}
	vCheck("step.left.total", int64(sch.Left()) == total)
	sch.Start(t0)
	// exhaust part j, then ask the composite for the next token: it must be the first token
	// of the next non-empty part, at t0 + (index of that part)*dur; at the end: finish time.
	for j := 0; j < L; j++ {
		d := parts[j].(*doAtSchedule)
		d.i.Store(d.n)
	}
	tx, ok := sch.Next()
	vCheck("step.finish.notok", !ok)
	vCheck("step.finish.time", vTimeNs(tx) == vTimeNs(t0)+int64(L)*int64(dur))
	vReach("end")
}

// step: the first token of part j+1 comes exactly at the finish of part j.
func HarnessC01StepBoundary() {
	from := vNondetRatio("from", 16, 1600, 16)
	step := vNondetInt("step", 1, 50)
	dur := c01Dur()
	vAssume(from*float64(dur)/1e9 >= 1) // every level has at least one token
	t0 := vNondetTime("t0")
	to := from + float64(2*step) // three levels
	sch := NewStep(from, to, step, dur).(*compositeSchedule)
	parts := append([]core.Schedule{}, sch.scheds...)
	vCheck("stepb.levels", len(parts) == 3)
	if len(parts) != 3 {
		return
	}
	sch.Start(t0)
	for j := 0; j < 2; j++ {
		d := parts[j].(*doAtSchedule)
		d.i.Store(d.n) // part j exhausted
		tx, ok := sch.Next()
		vCheck("stepb.next.ok", ok)
		vCheck("stepb.next.time", vTimeNs(tx) == vTimeNs(t0)+int64(j+1)*int64(dur))
	}
	vReach("end")
}

// ---- lazily started profiles: the engine never calls Start, the first Next() starts the
// profile at the instant it is called ("now", bracketed by the clock readings around the call).

// a leaf profile (const / line / once), possibly without any token.
func HarnessC01LazyLeaf() {
	kind := vNondetInt("kind", 0, 2)
	dur := c01Dur()
	t0 := vNondetTime("t0")
	var sch core.Schedule
	switch kind {
	case 0:
		sch = NewConst(vNondetRatio("ops", 0, 1600, 16), dur)
	case 1:
		from := vNondetRatio("from", 0, 1600, 16)
		to := vNondetRatio("to", 0, 1600, 16)
		vAssume(from != to)
		sch = NewLine(from, to, dur)
	default:
		sch = NewOnce(vNondetInt("n", 0, 3))
		dur = 0
	}
	s := sch.(*doAtSchedule)
	vObserve("n", s.n)
	vSetClock(vTimeNs(t0))
	before := vClock()
	tx, ok := sch.Next()
	after := vClock()
	if s.n == 0 {
		vCheck("lazy.empty.notok", !ok)
		vCheck("lazy.empty.finish.lo", vTimeNs(tx) >= before+int64(dur))
		vCheck("lazy.empty.finish.hi", vTimeNs(tx) <= after+int64(dur))
		vReach("empty")
	} else {
		vCheck("lazy.token.ok", ok)
		vCheck("lazy.token.not.before.start", vTimeNs(tx) >= before)
		vCheck("lazy.token.not.after.end", vTimeNs(tx) <= after+int64(dur))
		vReach("token")
	}
	// the finish time of the drained profile is start+duration as well
	s.i.Store(s.n)
	fin, ok2 := sch.Next()
	vCheck("lazy.drained.notok", !ok2)
	vCheck("lazy.drained.finish.lo", vTimeNs(fin) >= before+int64(dur))
	vCheck("lazy.drained.finish.hi", vTimeNs(fin) <= after+int64(dur))
}

// a step profile whose first levels may be empty (from = 0, or rate*duration < 1), and the
// "pause, then load" list [const 0 ops for dur, once n]: the first token comes j*dur after the
// lazy start, j = index of the first level holding a token.
func HarnessC01LazyStep() {
	dur := c01Dur()
	t0 := vNondetTime("t0")
	var sch core.Schedule
	var counts, durs []int64
	if vNondetBool("pauseThenLoad") {
		n := vNondetInt("n", 0, 3)
		sch = NewComposite(NewConst(0, dur), NewOnce(n))
		counts = []int64{0, n}
		durs = []int64{int64(dur), 0}
	} else {
		from := vNondetRatio("from", 0, 160, 16)
		step := vNondetInt("step", 1, 5)
		levels := vNondetInt("levels", 2, 3)
		to := from + float64(step*(levels-1))
		sch = NewStep(from, to, step, dur)
		for _, p := range sch.(*compositeSchedule).scheds {
			counts = append(counts, p.(*doAtSchedule).n)
			durs = append(durs, int64(dur))
		}
		vCheck("lazystep.levels", int64(len(counts)) == levels)
	}
	first := int64(len(counts))
	for j := len(counts) - 1; j >= 0; j-- {
		if counts[j] > 0 {
			first = int64(j)
		}
	}
	vObserve("first", first)
	vSetClock(vTimeNs(t0))
	before := vClock()
	tx, ok := sch.Next()
	after := vClock()
	off := int64(0) // the parts before the first token (all parts, when there is none) run their full duration
	for j := int64(0); j < first; j++ {
		off += durs[j]
	}
	vCheck("lazystep.ok.iff.tokens", ok == (first < int64(len(counts))))
	vCheck("lazystep.time.lo", vTimeNs(tx) >= before+off)
	vCheck("lazystep.time.hi", vTimeNs(tx) <= after+off)
	vReach("end")
}

// a step profile shared by two consumers (the instances of a pool share the RPS profile): under
// every interleaving within the delay bound the tokens handed out are exactly those of the
// succession of const profiles (level j counted from t0+j*dur), and the drained profile reports
// t0+3*dur to every caller.
func HarnessC01StepShared() {
	from := vConcretize(vNondetInt("from", 0, 2))
	dur := 500 * time.Millisecond
	t0 := vNondetTime("t0")
	sch := NewStep(float64(from), float64(from+2), 1, dur)
	var exp []int64
	for j := int64(0); j < 3; j++ {
		r := from + j
		n := r / 2 // floor(r * 0.5s)
		for k := int64(0); k < n; k++ {
			exp = append(exp, vTimeNs(t0)+j*int64(dur)+k*1_000_000_000/r)
		}
	}
	sch.Start(t0)
	var mu sync.Mutex
	var got []int64
	fins := make([]int64, 2)
	var wg sync.WaitGroup
	for c := 0; c < 2; c++ {
		wg.Add(1)
		go func(c int) {
			defer wg.Done()
			last := int64(0)
			for i := 0; i <= len(exp); i++ {
				tx, ok := sch.Next()
				if !ok {
					fins[c] = vTimeNs(tx)
					return
				}
				vCheck("shared.monotone.per.consumer", vTimeNs(tx) >= last)
				last = vTimeNs(tx)
				mu.Lock()
				got = append(got, vTimeNs(tx))
				mu.Unlock()
			}
		}(c)
	}
	wg.Wait()
	vCheck("shared.token.count", len(got) == len(exp))
	if len(got) != len(exp) {
		return
	}
	// compare as multisets (exp is ascending)
	for i := 0; i < len(got); i++ {
		for j := i + 1; j < len(got); j++ {
			if got[j] < got[i] {
				got[i], got[j] = got[j], got[i]
			}
		}
	}
	for i := range exp {
		vCheck("shared.token.times", got[i] == exp[i])
	}
	for c := 0; c < 2; c++ {
		vCheck("shared.finish.time", fins[c] == vTimeNs(t0)+3*int64(dur))
	}
	vObserve("n", int64(len(got)))
	vReach("end")
}

// const/step over long runs: the number of operations for durations up to 48 h (up to 1.7e11
// operations: products of rate and duration that do not fit into 63 bits when counted in ns).
func HarnessC01ConstCountLong() {
	ops := vNondetRatio("ops", 0, 16_000_000, 16) // [0, 1e6]
	sec := vNondetInt("sec", 0, 172800)
	ns := vNondetInt("ns", 0, 999_999_999)
	dur := time.Duration(sec*1_000_000_000 + ns)
	vAssume(dur >= time.Millisecond)
	s := NewConst(ops, dur).(*doAtSchedule)
	n := s.n
	vObserve("n", n)
	vCheck("const.long.n.nonneg", n >= 0)
	I := ops * float64(dur) / 1e9
	vCheck("const.long.count.lower", float64(n) <= I)
	vCheck("const.long.count.upper", I < float64(n)+1)
	vCheck("const.long.left", int64(s.Left()) == n)
	vReach("end")
}

// line.count for slow ramps: long runs (a concrete duration of 10 min, 1 h, 2 h, 6 h or 24 h) whose
// rate moves by as little as 1/16 rps over the whole run - slopes down to 7e-7 rps/s. The duration
// being concrete keeps the slope linear in the symbolic rates, so the solver decides every branch
// that depends on it. The operation count is that of the integral, as for every other line.
func HarnessC01LineSlowRamp() {
	dur := []time.Duration{10 * time.Minute, time.Hour, 2 * time.Hour, 6 * time.Hour, 24 * time.Hour}[vConcretize(vNondetInt("durIdx", 0, 4))]
	from := vNondetRatio("from", 0, 1600, 16)
	to := vNondetRatio("to", 0, 1600, 16)
	vAssume(from != to)
	s := NewLine(from, to, dur).(*doAtSchedule)
	n := s.n
	vObserve("n", n)
	I := (from + to) / 2 * float64(dur) / 1e9
	vCheck("line.slow.count.lower", float64(n) <= I)
	vCheck("line.slow.count.upper", I < float64(n)+1)
	vCheck("line.slow.duration", s.duration == dur)
	vReach("end")
}
