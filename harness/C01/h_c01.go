package schedule

import "time"

// C01 const.count / const.time: NewConst(ops, dur) for every valid ops,dur; token k arbitrary.
func HarnessC01ConstProbe() {
	ops := vNondetRatio("ops", 0, 16_000_000, 16)         // [0, 1e6] in 1/16 steps
	dur := time.Duration(vNondetInt("dur", 1_000_000, 3_600_000_000_000))
	t0 := vNondetTime("t0")
	s := NewConst(ops, dur).(*doAtSchedule)
	n := s.n
	vCheck("const.n.nonneg", n >= 0)
	// n == floor(ops*dur/1e9)
	I := ops * float64(dur) / 1e9
	vCheck("const.count.lower", float64(n) <= I)
	vCheck("const.count.upper", I < float64(n)+1)
	s.Start(t0)
	k := vNondetInt("k", 0, 1<<53)
	vAssume(k < n)
	s.i.Store(k)
	tx, ok := s.Next()
	vCheck("const.ok", ok)
	off := vTimeNs(tx) - vTimeNs(t0)
	vCheck("const.time.after.start", off >= 0)
	vCheck("const.time.before.end", off <= int64(dur))
	// earliest instant at which ops*t >= k  : t = k/ops ; allow 1ns truncation
	exact := float64(k) * 1e9 / ops
	vCheck("const.time.trunc.lo", float64(off) <= exact)
	vCheck("const.time.trunc.hi", exact < float64(off)+1)
	vReach("end")
}
