package schedule

import (
	"time"

	"github.com/yandex/pandora/core"
)

// ---- C02 sequential: differential check of composite trees against a flat reference ----
// Leaf kinds: 0 = once(n) (n tokens at its start, duration 0), 1 = const(0,d) (no tokens,
// duration d), 2 = unlimited(d) (tokens "now" while now < start+d).

type c02Leaf struct {
	kind int64
	n    int64
	d    time.Duration
	sch  core.Schedule
}

func c02MakeLeaf(i int, allowUnlimited bool) c02Leaf {
	maxKind := int64(1)
	if allowUnlimited {
		maxKind = 2
	}
	var l c02Leaf
	l.kind = vConcretize(vNondetInt("kind", 0, maxKind))
	switch l.kind {
	case 0:
		maxN := int64(3)
		if vThorough() && i < 2 {
			maxN = 4
		}
		l.n = vConcretize(vNondetInt("n", 0, maxN))
		l.sch = NewOnce(l.n)
		if l.n == 0 && vNondetBool("asEmptyList") {
			// a list without parts (composite with empty 'nested', step with from > to): no tokens,
			// no duration, and - like every part - a schedule of its own
			l.sch = NewComposite()
		}
	case 1:
		l.d = time.Duration(vNondetInt("d", 1_000_000, 10_000_000_000))
		l.sch = NewConst(0, l.d)
	default:
		l.d = time.Duration(vNondetInt("d", 1_000_000, 10_000_000_000))
		l.sch = NewUnlimited(l.d)
	}
	return l
}

// c02Expected: exact number of tokens left from part p on, or -1 when a part at or after p
// is an unlimited one.
func c02Remaining(leaves []c02Leaf, p int, usedInP int64) int64 {
	total := int64(0)
	for i := p; i < len(leaves); i++ {
		if leaves[i].kind == 2 {
			return -1
		}
		total += leaves[i].n
	}
	return total - usedInP
}

func c02Build(leaves []c02Leaf, nest int64) core.Schedule {
	switch {
	case len(leaves) == 3 && nest == 1:
		return NewComposite(leaves[0].sch, NewComposite(leaves[1].sch, leaves[2].sch))
	case len(leaves) == 3 && nest == 2:
		return NewComposite(NewComposite(leaves[0].sch, leaves[1].sch), leaves[2].sch)
	}
	var ss []core.Schedule
	for _, l := range leaves {
		ss = append(ss, l.sch)
	}
	return NewComposite(ss...)
}

// Finite trees (once / zero-token pauses): S1..S6 exactly.
func c02Finite(k int) {
	var leaves []c02Leaf
	for i := 0; i < k; i++ {
		leaves = append(leaves, c02MakeLeaf(i, false))
	}
	nest := int64(0)
	if k == 3 {
		nest = vConcretize(vNondetInt("nest", 0, 2))
	}
	sch := c02Build(leaves, nest)
	total := c02Remaining(leaves, 0, 0)
	t0 := vNondetTime("t0")
	if vNondetBool("lazy") {
		// the engine never calls Start: the first Next() (or a Left() that has to look past an
		// empty first part) starts the schedule "now"; the clock stands still at t0
		vSetClock(vTimeNs(t0))
		vFreezeClock()
		vCheck("S5.left.before.lazy.start", int64(sch.Left()) == total)
	} else {
		vCheck("S5.left.before.start", int64(sch.Left()) == total)
		sch.Start(t0)
	}
	st := vTimeNs(t0) // start of the current part
	last := st
	drawn := int64(0)
	for p := range leaves {
		l := leaves[p]
		for j := int64(0); j < l.n; j++ {
			left := int64(sch.Left())
			vCheck("S5.left.exact", left == total-drawn)
			tx, ok := sch.Next()
			vCheck("S1.token.ok", ok)
			vCheck("S3.once.at.part.start", vTimeNs(tx) == st)
			vCheck("S2.monotone", vTimeNs(tx) >= last)
			last = vTimeNs(tx)
			drawn++
			vCheck("S6.left.drops.by.one", int64(sch.Left()) == total-drawn)
		}
		st += int64(l.d)
	}
	vCheck("S5.left.zero.at.end", sch.Left() == 0)
	for r := 0; r < 3; r++ {
		tx, ok := sch.Next()
		vCheck("S1.exhausted.notok", !ok)
		vCheck("S4.finish.time.stable", vTimeNs(tx) == st)
	}
	vCheck("S5.left.zero.after.end", sch.Left() == 0)
	vObserve("drawn", drawn)
	vReach("end")
}

func HarnessC02Finite1() { c02Finite(1) }
func HarnessC02Finite2() { c02Finite(2) }
func HarnessC02Finite3() { c02Finite(3) }
func HarnessC02Finite4() { c02Finite(4) }

// Trees with unlimited parts: Left() must be negative exactly while an unfinished unlimited
// part lies at or after the head, exact otherwise; tokens of an unlimited part are "now",
// not before the part's start and before its finish; the next part starts at that finish.
func c02Empty(l c02Leaf) bool { return l.kind == 1 || (l.kind == 0 && l.n == 0) }

func c02Mixed(k int) {
	var leaves []c02Leaf
	nUnl := 0
	for i := 0; i < k; i++ {
		l := c02MakeLeaf(i, true)
		if l.kind == 2 {
			nUnl++
		}
		leaves = append(leaves, l)
	}
	vAssume(nUnl >= 1)
	nest := int64(0)
	if k == 3 {
		nest = vConcretize(vNondetInt("nest", 0, 2))
	}
	if vKnown("C02-left-before-start") {
		// open finding: NewComposite calls Left() of a nested composite, which starts it when its
		// first part is empty and an unlimited part follows (see HarnessC02LeftBeforeStart)
		vAssume(!(nest == 1 && c02Empty(leaves[1]) && leaves[2].kind == 2))
		vAssume(!(nest == 2 && c02Empty(leaves[0]) && leaves[1].kind == 2))
	}
	sch := c02Build(leaves, nest)
	if leaves[0].kind == 0 && leaves[0].n > 0 {
		vCheck("S5.unknown.before.start", sch.Left() < 0)
	}
	t0 := vNondetTime("t0")
	vSetClock(vTimeNs(t0)) // the schedule is started "now"
	sch.Start(t0)
	st := vTimeNs(t0)
	last := st
	for p := range leaves {
		l := leaves[p]
		switch l.kind {
		case 0:
			for j := int64(0); j < l.n; j++ {
				exp := c02Remaining(leaves, p, j)
				left := int64(sch.Left())
				if exp < 0 {
					vCheck("S5.left.negative.while.unknown", left < 0)
				} else {
					vCheck("S5.left.exact", left == exp)
				}
				tx, ok := sch.Next()
				vCheck("S1.token.ok", ok)
				vCheck("S3.once.at.part.start", vTimeNs(tx) == st)
				vCheck("S2.monotone", vTimeNs(tx) >= last)
				last = vTimeNs(tx)
			}
		case 1:
			st += int64(l.d)
		default:
			fin := st + int64(l.d)
			over := false
			var tx time.Time
			var ok bool
			for j := 0; j < 2 && !over; j++ {
				before := vClock()
				left := sch.Left()
				after := vClock()
				if left < 0 {
					vCheck("S5.negative.only.while.unfinished", before < fin)
				} else {
					vCheck("S5.nonneg.only.when.finished", after >= fin)
					if exp := c02Remaining(leaves, p+1, 0); exp >= 0 {
						vCheck("S5.left.exact.after.unlimited", int64(left) == exp)
					}
				}
				tx, ok = sch.Next()
				after = vClock()
				if ok && vTimeNs(tx) < fin {
					// a token of this unlimited part
					vCheck("S3.unlimited.not.before.part.start", vTimeNs(tx) >= st)
					vCheck("S3.unlimited.not.in.future", vTimeNs(tx) <= after || vTimeNs(tx) == st)
					vCheck("S2.monotone", vTimeNs(tx) >= last)
					last = vTimeNs(tx)
					continue
				}
				vCheck("S3.unlimited.over.only.at.finish", after >= fin)
				over = true
			}
			if !over {
				if vClock() < fin {
					vSetClock(fin) // time passes until the part is over
				}
				tx, ok = sch.Next()
			}
			c02AfterUnlimited(leaves, p, fin, tx, ok, sch, &last)
			vReach("end")
			return
		}
	}
	vReach("end")
}

// c02AfterUnlimited: the call that observed the end of unlimited part p returned (tx, ok).
// Only checked when every later part is finite (at most one unlimited part is followed).
func c02AfterUnlimited(leaves []c02Leaf, p int, fin int64, tx time.Time, ok bool, sch core.Schedule, last *int64) {
	rest := c02Remaining(leaves, p+1, 0)
	if rest < 0 {
		return
	}
	st := fin
	first := true
	for q := p + 1; q < len(leaves); q++ {
		l := leaves[q]
		for j := int64(0); j < l.n; j++ {
			if !first {
				left := int64(sch.Left())
				vCheck("S5.left.exact.tail", left == rest)
				tx, ok = sch.Next()
			}
			first = false
			vCheck("S1.tail.token.ok", ok)
			vCheck("S3.tail.at.part.start", vTimeNs(tx) == st)
			vCheck("S2.monotone.tail", vTimeNs(tx) >= *last)
			*last = vTimeNs(tx)
			rest--
		}
		st += int64(l.d)
	}
	if !first {
		tx, ok = sch.Next()
	}
	vCheck("S1.tail.exhausted", !ok)
	vCheck("S4.tail.finish.time", vTimeNs(tx) == st)
	vCheck("S5.tail.left.zero", sch.Left() == 0)
}

func HarnessC02Mixed2() { c02Mixed(2) }
func HarnessC02Mixed3() { c02Mixed(3) }

// instance_step(from,to,step,d): once(from) then repeated (pause d, once(step)).
func HarnessC02InstanceStep() {
	from := vConcretize(vNondetInt("from", 0, 3))
	step := vConcretize(vNondetInt("step", 1, 3))
	extra := vConcretize(vNondetInt("extra", 0, 6))
	to := from + extra
	vAssume(extra < 3*step) // at most 3 steps... (from, +step, +2step)
	d := time.Duration(vNondetInt("d", 1_000_000, 10_000_000_000))
	sch := NewInstanceStep(from, to, step, d)
	steps := (to - from) / step
	total := from + steps*step
	vCheck("IS.left.total", int64(sch.Left()) == total)
	t0 := vNondetTime("t0")
	sch.Start(t0)
	drawn := int64(0)
	for lvl := int64(0); lvl <= steps; lvl++ {
		cnt := step
		if lvl == 0 {
			cnt = from
		}
		for j := int64(0); j < cnt; j++ {
			vCheck("IS.left.exact", int64(sch.Left()) == total-drawn)
			tx, ok := sch.Next()
			vCheck("IS.token.ok", ok)
			vCheck("IS.token.time", vTimeNs(tx) == vTimeNs(t0)+lvl*int64(d))
			drawn++
		}
	}
	tx, ok := sch.Next()
	vCheck("IS.exhausted", !ok)
	vCheck("IS.finish", vTimeNs(tx) == vTimeNs(t0)+steps*int64(d))
	vCheck("IS.left.zero", sch.Left() == 0)
	vObserve("total", total)
	vReach("end")
}

// Left MAY be called before Start (core.Schedule contract); Start must still work afterwards.
func HarnessC02LeftBeforeStart() {
	d := time.Duration(vNondetInt("d", 1_000_000, 10_000_000_000))
	kind := vConcretize(vNondetInt("kind", 0, 1))
	var head core.Schedule
	if kind == 0 {
		head = NewOnce(0)
	} else {
		head = NewConst(0, d)
	}
	sch := NewComposite(head, NewUnlimited(d))
	_ = sch.Left()
	t0 := vNondetTime("t0")
	started := func() (ok bool) {
		defer func() {
			if recover() != nil {
				ok = false
			}
		}()
		sch.Start(t0)
		return true
	}()
	vCheck("LBS.start.after.left", started)
	vReach("end")
}

// ---- C02/T5 for long high-rate runs: a list of three once parts (also nested) whose token counts
// are symbolic up to 2^33 each - totals that do not fit 32 bits. Left() is the exact total before and
// after the start, drops by exactly one per token, and the part boundaries are crossed with a part of
// 0..2 tokens in front so that the suffix sums of every position are read.
func HarnessC02LeftLargeTotals() {
	a := vNondetInt("a", 0, 2)
	b := vNondetInt("b", 0, 1<<33)
	c := vNondetInt("c", 0, 1<<33)
	var s core.Schedule
	if vNondetBool("nested") {
		s = NewComposite(NewOnce(a), NewComposite(NewOnce(b), NewOnce(c)))
	} else {
		s = NewComposite(NewOnce(a), NewOnce(b), NewOnce(c))
	}
	total := a + b + c
	vCheck("T5.large.left.before.start", int64(s.Left()) == total)
	t0 := vNondetTime("t0")
	s.Start(t0)
	vCheck("T5.large.left.after.start", int64(s.Left()) == total)
	for i := int64(1); i <= 4; i++ {
		_, ok := s.Next()
		if i <= total {
			vCheck("T5.large.token", ok)
			vCheck("T5.large.left.drops.by.one", int64(s.Left()) == total-i)
		} else {
			vCheck("T5.large.no.token", !ok)
			vCheck("T5.large.left.zero", s.Left() == 0)
		}
	}
	vReach("end")
}
