package schedule

import (
	"sync"
	"time"

	"github.com/yandex/pandora/core"
)

// ---- C02 concurrent: callers draw from one shared schedule under every interleaving within
// the preemption bound ----

type c02Res struct {
	ok   bool
	t    int64
	left int
	isL  bool
}

func c02ConcBody(sch core.Schedule, total int64, nCallers, opsPer int, finishAt int64) {
	c02ConcBodyParts(sch, total, nCallers, opsPer, finishAt, -1, 0)
}

// firstCount >= 0: the schedule is once(firstCount) at `start`, then parts whose tokens all
// lie at finishAt (the parts in between have no tokens).
func c02ConcBodyParts(sch core.Schedule, total int64, nCallers, opsPer int, finishAt int64, firstCount int64, start int64) {
	res := make([][]c02Res, nCallers)
	for c := 0; c < nCallers; c++ {
		res[c] = make([]c02Res, opsPer)
	}
	vRaceBegin()
	var wg sync.WaitGroup
	for c := 0; c < nCallers; c++ {
		wg.Add(1)
		go func(c int) {
			defer wg.Done()
			for i := 0; i < opsPer; i++ {
				if i == 1 {
					// one Left() observation per caller, between its draws
					res[c][i] = c02Res{left: sch.Left(), isL: true}
					continue
				}
				tx, ok := sch.Next()
				res[c][i] = c02Res{ok: ok, t: vTimeNs(tx)}
			}
		}(c)
	}
	wg.Wait()
	vRaceCheck("K0.schedule.race.free")
	okCount := int64(0)
	draws := int64(0)
	atStart := int64(0)
	for c := 0; c < nCallers; c++ {
		last := int64(0)
		sawZero := false
		for i := 0; i < opsPer; i++ {
			r := res[c][i]
			if r.isL {
				vCheck("K3.left.nonneg.when.finite", r.left >= 0)
				vCheck("K3.left.at.most.total", int64(r.left) <= total)
				if r.left == 0 {
					sawZero = true
				}
				continue
			}
			draws++
			if r.ok {
				okCount++
				if firstCount >= 0 {
					vCheck("K6.token.at.its.part.start", r.t == start || r.t == finishAt)
					if r.t == start && start != finishAt {
						atStart++
					}
				}
				vCheck("K3.no.token.after.left.zero", !sawZero)
			} else {
				vCheck("K4.finish.time", r.t == finishAt)
			}
			vCheck("K2.per.caller.monotone", r.t >= last)
			last = r.t
		}
	}
	exp := total
	if draws < exp {
		exp = draws
	}
	vCheck("K1.exactly.once", okCount == exp)
	if firstCount >= 0 && start != finishAt {
		vCheck("K6.later.part.not.started.early", atStart <= firstCount)
	}
	vCheck("K3.left.after", int64(sch.Left()) == total-okCount)
	vReach("end")
}

func HarnessC02ConcTwoParts() {
	n1 := vConcretize(vNondetInt("n1", 0, 2))
	n2 := vConcretize(vNondetInt("n2", 0, 2))
	withPause := vNondetBool("pause")
	d := time.Duration(vNondetInt("d", 1_000_000, 10_000_000_000))
	var sch core.Schedule
	fin := int64(0)
	if withPause {
		sch = NewComposite(NewOnce(n1), NewConst(0, d), NewOnce(n2))
		fin = int64(d)
	} else {
		sch = NewComposite(NewOnce(n1), NewOnce(n2))
	}
	t0 := vNondetTime("t0")
	sch.Start(t0)
	c02ConcBodyParts(sch, n1+n2, 2, 3, vTimeNs(t0)+fin, n1, vTimeNs(t0))
}

func HarnessC02ConcThreeCallers() {
	n1 := vConcretize(vNondetInt("n1", 0, 2))
	n2 := vConcretize(vNondetInt("n2", 0, 3))
	sch := NewComposite(NewOnce(n1), NewOnce(n2))
	t0 := vNondetTime("t0")
	sch.Start(t0)
	c02ConcBody(sch, n1+n2, 3, 3, vTimeNs(t0))
}

// the callback-on-finish wrapper fires exactly once, under concurrent draws
func HarnessC02ConcSingleLeaf() {
	n := vConcretize(vNondetInt("n", 0, 3))
	sch := NewOnce(n)
	t0 := vNondetTime("t0")
	sch.Start(t0)
	c02ConcBody(sch, n, 2, 3, vTimeNs(t0))
}

// Concurrent Next/Left over composite(once(n1), once(n2), unlimited(d)): the tokens of the
// bounded parts (they carry the start time) are handed out exactly once, also while Left()
// callers shift the composite to its next part.
func HarnessC02ConcBeforeUnlimited() {
	n1 := vConcretize(vNondetInt("n1", 1, 2))
	n2 := vConcretize(vNondetInt("n2", 1, 2))
	// long enough that no sequence of clock readings of this harness reaches its end
	d := time.Duration(vNondetInt("d", 100_000_000_000_000_000, 200_000_000_000_000_000))
	sch := NewComposite(NewOnce(n1), NewOnce(n2), NewUnlimited(d))
	t0 := vNondetTime("t0")
	vSetClock(vTimeNs(t0))
	sch.Start(t0)
	vAdvanceClock(1) // every reading of the clock is now after the start: unlimited tokens are > t0
	const nCallers, opsPer = 2, 4
	res := make([][]c02Res, nCallers)
	var wg sync.WaitGroup
	for c := 0; c < nCallers; c++ {
		res[c] = make([]c02Res, opsPer)
		wg.Add(1)
		go func(c int) {
			defer wg.Done()
			for i := 0; i < opsPer; i++ {
				if (i+c)%2 == 0 {
					res[c][i] = c02Res{left: sch.Left(), isL: true}
					continue
				}
				tx, ok := sch.Next()
				res[c][i] = c02Res{ok: ok, t: vTimeNs(tx)}
			}
		}(c)
	}
	wg.Wait()
	bounded, draws := int64(0), int64(0)
	for c := 0; c < nCallers; c++ {
		last := int64(0)
		for i := 0; i < opsPer; i++ {
			r := res[c][i]
			if r.isL {
				vCheck("K3.left.unknown.while.unlimited.ahead", r.left < 0)
				continue
			}
			draws++
			vCheck("K1.token.while.unlimited.runs", r.ok)
			if r.ok && r.t == vTimeNs(t0) {
				bounded++
			}
			vCheck("K2.per.caller.monotone", r.t >= last)
			last = r.t
		}
	}
	exp := n1 + n2
	if draws < exp {
		exp = draws
	}
	vCheck("K1.bounded.tokens.exactly.once", bounded == exp)
	vReach("end")
}

// A lazily started unlimited(d) profile shared by two instances (the common `rps: unlimited`
// pool): while one caller's first Next() is starting the profile, another caller's Left()
// (Waiter.IsFinished) must not report 0 - the profile has d of unknown tokens ahead. Left() == 0
// is allowed only once the clock has reached start+d, and the first tokens are handed out.
func HarnessC02ConcUnlimitedLazy() {
	d := time.Duration(vNondetInt("d", 1_000_000_000, 10_000_000_000))
	t0 := vNondetTime("t0")
	vSetClock(vTimeNs(t0))
	sch := NewUnlimited(d)
	var wg sync.WaitGroup
	wg.Add(2)
	go func() {
		defer wg.Done()
		tx, ok := sch.Next()
		if vClock() < vTimeNs(t0)+int64(d) {
			vCheck("K7.unlimited.first.token", ok && vTimeNs(tx) >= vTimeNs(t0))
		}
	}()
	go func() {
		defer wg.Done()
		for i := 0; i < 2; i++ {
			left := sch.Left()
			if left == 0 {
				vCheck("K7.unlimited.left.zero.only.when.over", vClock() >= vTimeNs(t0)+int64(d))
			} else {
				vCheck("K7.unlimited.left.unknown", left < 0)
			}
		}
	}()
	wg.Wait()
	vReach("end")
}

// A lazily started leaf profile (once / const) shared by two instances: the first Next() starts
// it "now"; no caller - however it interleaves with that start - gets a token dated before the
// start or after start+duration, and the tokens are handed out exactly once.
func HarnessC02ConcLazyLeaf() {
	n := vConcretize(vNondetInt("n", 1, 3))
	t0 := vNondetTime("t0")
	vSetClock(vTimeNs(t0))
	var sch core.Schedule
	dur := int64(0)
	if vNondetBool("const") {
		dur = int64(time.Second)
		sch = NewConst(float64(n), time.Second)
	} else {
		sch = NewOnce(n)
	}
	var mu sync.Mutex
	got := 0
	vRaceBegin()
	var wg sync.WaitGroup
	for c := 0; c < 2; c++ {
		wg.Add(1)
		go func() {
			defer wg.Done()
			for i := 0; i < 2; i++ {
				tx, ok := sch.Next()
				after := vClock()
				vCheck("K8.lazy.not.before.start", vTimeNs(tx) >= vTimeNs(t0))
				vCheck("K8.lazy.not.after.end", vTimeNs(tx) <= after+dur)
				if ok {
					mu.Lock()
					got++
					mu.Unlock()
				}
			}
		}()
	}
	wg.Wait()
	// (the start instant is written by the starting caller and read by every other one)
	vRaceCheck("K8.lazy.start.race.free")
	exp := int(n)
	if exp > 4 {
		exp = 4
	}
	vCheck("K8.lazy.exactly.once", got == exp)
	vReach("end")
}
