package coreutil

import (
	"sync"
	"time"

	"github.com/yandex/pandora/core/schedule"
)

// ---- C02/S7,K5: the callback-on-finish wrapper fires exactly once, and not before a caller
// could know that the schedule is finished (Next !ok or Left()==0) ----

func HarnessC02CallbackSequential() {
	n := vConcretize(vNondetInt("n", 0, 3))
	fired := 0
	knownFinished := false
	s := NewCallbackOnFinishSchedule(schedule.NewOnce(n), func() {
		fired++
	})
	s.Start(time.Unix(100, 0))
	ops := int(vConcretize(vNondetInt("ops", 1, 5)))
	for i := 0; i < ops; i++ {
		if vNondetBool("useLeft") {
			l := s.Left()
			if l == 0 {
				knownFinished = true
			}
		} else {
			ts, ok := s.Next()
			if !ok {
				knownFinished = true
				// the wrapper hands on the finish time of the wrapped schedule, whoever saw the end first
				vCheck("S4.callback.finish.time.passed.on", ts.Equal(time.Unix(100, 0)))
			} else {
				vCheck("S3.callback.token.time.passed.on", ts.Equal(time.Unix(100, 0)))
			}
		}
		if knownFinished {
			vCheck("S7.callback.fired.once.when.finish.observable", fired == 1)
		} else {
			vCheck("S7.callback.not.before.finish", fired == 0)
		}
	}
	vObserve("fired", int64(fired))
	vReach("end")
}

func HarnessC02CallbackConcurrent() {
	n := vConcretize(vNondetInt("n", 0, 2))
	var mu sync.Mutex
	fired := 0
	s := NewCallbackOnFinishSchedule(schedule.NewOnce(n), func() {
		mu.Lock()
		fired++
		mu.Unlock()
	})
	s.Start(time.Unix(100, 0))
	var wg sync.WaitGroup
	sawEnd := make([]bool, 2)
	for c := 0; c < 2; c++ {
		wg.Add(1)
		go func(c int) {
			defer wg.Done()
			for i := 0; i < 2; i++ {
				if (i+c)%2 == 0 {
					ts, ok := s.Next()
					if !ok {
						sawEnd[c] = true
					}
					vCheck("K4.callback.times.passed.on", ts.Equal(time.Unix(100, 0)))
				} else if s.Left() == 0 {
					sawEnd[c] = true
				}
			}
		}(c)
	}
	wg.Wait()
	if sawEnd[0] || sawEnd[1] {
		vCheck("K5.callback.exactly.once", fired == 1)
	} else {
		vCheck("K5.callback.at.most.once", fired <= 1)
	}
	vReach("end")
}
