package scenario

import (
	"reflect"
	"unsafe"

	"context"
	"errors"
	"strings"
	"time"

	"github.com/golang/protobuf/proto"
	"github.com/jhump/protoreflect/desc"
	"github.com/jhump/protoreflect/dynamic"
	"github.com/jhump/protoreflect/dynamic/grpcdynamic"
	"github.com/yandex/pandora/core"
	"github.com/yandex/pandora/core/aggregator/netsample"
	"go.uber.org/zap"
	ggrpc "google.golang.org/grpc"
	"google.golang.org/grpc/metadata"
	"google.golang.org/protobuf/types/descriptorpb"
)

// ---- C20 (pandora's part) for gRPC scenario calls: the real Gun.Shoot/shoot/shootStep with the
// real TextTemplater (its template cache included) for several scenarios shot by one gun.
// Observed at Stub.InvokeRpc / ClientConn.Invoke: method, message type, message text, metadata.
// Library stubs as in HarnessC20GunEntries (identity preserving); text/template is the engine's
// contract model (a template without actions renders as its own text), the real library natively.

type zRec struct {
	method   string
	typeOK   bool
	payload  string
	md       map[string][]string
	deadline int64 // ns after the clock reading taken right before the shot; -1 = none
}

var z struct {
	recs []zRec
	t0   time.Time
}

func zCtx(ctx context.Context, r *zRec) {
	if md, ok := zRawMD(ctx); ok {
		r.md = md
	}
	r.deadline = -1
	if d, ok := ctx.Deadline(); ok {
		r.deadline = int64(d.Sub(z.t0))
	}
}

func vStub___github_com_jhump_protoreflect_desc_MethodDescriptor__GetInputType(md *desc.MethodDescriptor) *desc.MessageDescriptor {
	return vGetField(md, "inType").(*desc.MessageDescriptor)
}
func vStub___github_com_jhump_protoreflect_desc_MethodDescriptor__GetOutputType(md *desc.MethodDescriptor) *desc.MessageDescriptor {
	return nil
}
func vStub_github_com_jhump_protoreflect_dynamic_NewMessage(md *desc.MessageDescriptor) *dynamic.Message {
	m := &dynamic.Message{}
	vSetField(m, "md", md)
	return m
}
func vStub___github_com_jhump_protoreflect_dynamic_Message__UnmarshalJSON(m *dynamic.Message, js []byte) error {
	if strings.Contains(string(js), "nope") {
		return errors.New("message type has no known field named nope")
	}
	vSetField(m, "values", map[int32]interface{}{1: string(js)})
	return nil
}
func vStub___github_com_jhump_protoreflect_dynamic_Message__ConvertFrom(m *dynamic.Message, target proto.Message) error {
	return nil
}
func vStub___github_com_jhump_protoreflect_dynamic_Message__MarshalJSON(m *dynamic.Message) ([]byte, error) {
	return []byte(`{"f":"r"}`), nil
}
func vStub_encoding_json_Unmarshal(data []byte, v any) error {
	*(v.(*map[string]any)) = map[string]any{"f": "r"}
	return nil
}
func vStub__github_com_jhump_protoreflect_dynamic_grpcdynamic_Stub__InvokeRpc(s grpcdynamic.Stub, ctx context.Context, method *desc.MethodDescriptor, request proto.Message, opts ...ggrpc.CallOption) (proto.Message, error) {
	marker := vGetField(method, "sourceInfoPath").([]int32)
	name := "/p.S.A"
	if marker[0] == 2 {
		name = "/p.S.B"
	}
	msg := request.(*dynamic.Message)
	r := zRec{method: name}
	r.typeOK = vGetField(msg, "md").(*desc.MessageDescriptor) == vGetField(method, "inType").(*desc.MessageDescriptor)
	if vals := vGetField(msg, "values").(map[int32]interface{}); vals != nil {
		r.payload, _ = vals[1].(string)
	}
	zCtx(ctx, &r)
	z.recs = append(z.recs, r)
	return &dynamic.Message{}, nil
}

type zChan struct{}

func (zChan) Invoke(ctx context.Context, method string, args, reply any, opts ...ggrpc.CallOption) error {
	r := zRec{method: method, typeOK: true}
	if m, ok := args.(*dynamic.Message); ok {
		js, err := m.MarshalJSON()
		if err != nil {
			panic(err)
		}
		r.payload = string(js)
		want := "p.ReqA"
		if method == "/p.S.B" {
			want = "p.ReqB"
		}
		r.typeOK = m.GetMessageDescriptor().GetFullyQualifiedName() == want
	}
	zCtx(ctx, &r)
	z.recs = append(z.recs, r)
	reply.(*dynamic.Message).SetFieldByName("f", "r")
	return nil
}
func (zChan) NewStream(ctx context.Context, d *ggrpc.StreamDesc, method string, opts ...ggrpc.CallOption) (ggrpc.ClientStream, error) {
	return nil, errors.New("no streams")
}

func zNativeMethods() (a, b desc.MethodDescriptor) {
	str := descriptorpb.FieldDescriptorProto_TYPE_STRING
	opt := descriptorpb.FieldDescriptorProto_LABEL_OPTIONAL
	f := func() []*descriptorpb.FieldDescriptorProto {
		return []*descriptorpb.FieldDescriptorProto{{Name: proto.String("f"), Number: proto.Int32(1), Type: &str, Label: &opt, JsonName: proto.String("f")}}
	}
	fdp := &descriptorpb.FileDescriptorProto{
		Name: proto.String("z.proto"), Package: proto.String("p"), Syntax: proto.String("proto3"),
		MessageType: []*descriptorpb.DescriptorProto{{Name: proto.String("ReqA"), Field: f()}, {Name: proto.String("ReqB"), Field: f()}, {Name: proto.String("Resp"), Field: f()}},
		Service: []*descriptorpb.ServiceDescriptorProto{{Name: proto.String("S"), Method: []*descriptorpb.MethodDescriptorProto{
			{Name: proto.String("A"), InputType: proto.String(".p.ReqA"), OutputType: proto.String(".p.Resp")},
			{Name: proto.String("B"), InputType: proto.String(".p.ReqB"), OutputType: proto.String(".p.Resp")}}}},
	}
	fd, err := desc.CreateFileDescriptor(fdp)
	if err != nil {
		panic(err)
	}
	return *fd.FindService("p.S").FindMethodByName("A"), *fd.FindService("p.S").FindMethodByName("B")
}

type zAggr struct{ samples []*netsample.Sample }

func (a *zAggr) Report(s core.Sample)                                 { a.samples = append(a.samples, s.(*netsample.Sample)) }
func (a *zAggr) Run(ctx context.Context, _ core.AggregatorDeps) error { return nil }

type zStorage struct{}

func (zStorage) Variables() map[string]any { return map[string]any{"who": "O'Brien", "tok": "a+b"} }

type zStep struct {
	kind int64 // 0 method A, 1 method B, 2 unknown method, 3 payload that does not fit
	val  string
	md   map[string]string
	tmpl map[string]string // metadata as written in the definition, when it differs from what is sent
}

func zMdEqual(got map[string][]string, want map[string]string) bool {
	if len(got) != len(want) {
		return false
	}
	for k, v := range want {
		g := got[strings.ToLower(k)]
		if len(g) != 1 || g[0] != v {
			return false
		}
	}
	return true
}

// HarnessC20ScenarioCalls: two scenarios (names and step names chosen so that naive joins of the
// names may coincide) of 1-2 calls each, shot by one gun in the order s0, s1, s0.
func HarnessC20ScenarioCalls() {
	vFreezeClock() // (deadlines under a moving clock are the subject of HarnessC20GunEntries)
	z.recs = nil
	names := vConcretize(vNondetInt("names", 0, 2))
	scenNames := [][2]string{{"a_b", "a"}, {"s", "t"}, {"s", "t"}}[names]
	stepNames := [][2]string{{"c", "b_c"}, {"c", "c"}, {"c", "d"}}[names]
	var scens []*Scenario
	var steps [][]zStep
	for si := 0; si < 2; si++ {
		n := 1
		if si == 0 {
			n = int(vConcretize(vNondetInt("calls", 1, 2)))
		}
		sc := &Scenario{Name: scenNames[si]}
		var ss []zStep
		for i := 0; i < n; i++ {
			// (the second call of a scenario: a good call, metadata absent or two keys)
			st := zStep{kind: vConcretize(vNondetInt("kind", 0, 3-2*int64(i)))}
			st.val = string(rune(vNondetInt("val", 'a', 'z')))
			shape := vConcretize(vNondetInt("mdShape", 0, 3-2*int64(i)))
			if i == 1 {
				shape *= 2
			}
			switch shape {
			case 1:
				st.md = map[string]string{"k": string(rune(vNondetInt("mdv", 'a', 'z')))}
			case 2:
				st.md = map[string]string{"payload": "p" + string(rune(vNondetInt("mdv", 'a', 'z'))), "Auth": "t" + string(rune(vNondetInt("mdv", 'a', 'z')))}
			case 3:
				st.md = map[string]string{}
			}
			name := stepNames[si]
			if i == 1 {
				name += "2"
			}
			c := Call{Name: name, Tag: "t", Call: "p.S.A", Payload: []byte(`{"f":"` + st.val + `"}`)}
			switch st.kind {
			case 1:
				c.Call = "p.S.B"
			case 2:
				c.Call = "p.S.Nope"
			case 3:
				c.Payload = []byte(`{"nope":"` + st.val + `"}`)
			}
			if st.md != nil {
				c.Metadata = map[string]string{}
				for k, v := range st.md {
					c.Metadata[k] = v
				}
			}
			sc.Calls = append(sc.Calls, c)
			ss = append(ss, st)
		}
		scens = append(scens, sc)
		steps = append(steps, ss)
	}
	// values that come from a data source through template actions arrive as they are (quotes, plus
	// signs and all): the call of the second scenario takes its payload value and a metadata value
	// from the source
	if names == 1 && steps[1][0].kind <= 1 && vNondetBool("fromSource") {
		scens[1].VariableStorage = zStorage{}
		scens[1].Calls[0].Payload = []byte(`{"f":"{{.source.who}}"}`)
		scens[1].Calls[0].Metadata = map[string]string{"k": "{{.source.tok}}"}
		steps[1][0].val = "O'Brien"
		steps[1][0].md = map[string]string{"k": "a+b"}
		steps[1][0].tmpl = map[string]string{"k": "{{.source.tok}}"}
	}
	ag := &zAggr{}
	// (the timeout setting is varied for one naming only: it does not interact with the template cache)
	confTimeout := time.Duration(0)
	if names == 2 {
		confTimeout = time.Duration(vConcretize(vNondetInt("timeoutSec", 0, 1))) * 2 * time.Second
	}
	wantTimeout := 15 * time.Second // documented default
	if confTimeout != 0 {
		wantTimeout = confTimeout
	}
	g := NewGun(GunConfig{Target: "t:1", Timeout: confTimeout})
	inner := g.gun
	inner.Aggr, inner.GunDeps, inner.AnswLog = ag, core.GunDeps{Ctx: context.Background(), Log: zap.NewNop()}, zap.NewNop()
	var mdA, mdB desc.MethodDescriptor
	if vNative() {
		mdA, mdB = zNativeMethods()
		inner.Stub = grpcdynamic.NewStub(zChan{})
	} else {
		vSetField(&mdA, "sourceInfoPath", []int32{1})
		vSetField(&mdB, "sourceInfoPath", []int32{2})
		vSetField(&mdA, "inType", &desc.MessageDescriptor{})
		vSetField(&mdB, "inType", &desc.MessageDescriptor{})
	}
	inner.Services = map[string]desc.MethodDescriptor{"p.S.A": mdA, "p.S.B": mdB}

	for _, si := range []int{0, 1, 0} {
		before := len(z.recs)
		samplesBefore := len(ag.samples)
		z.t0 = time.Now()
		g.Shoot(scens[si].Clone().(*Scenario))
		spent := time.Since(z.t0)
		// the calls that must have gone out: every step up to the first one that cannot be sent
		want := 0
		for _, st := range steps[si] {
			if st.kind >= 2 {
				break
			}
			want++
		}
		vCheck("W1.scenario.calls.sent", len(z.recs) == before+want)
		if len(z.recs) != before+want {
			return
		}
		executed := want
		if want < len(steps[si]) {
			executed++
		}
		vCheck("W4.scenario.one.sample.per.executed.step", len(ag.samples) == samplesBefore+executed)
		if len(ag.samples) != samplesBefore+executed {
			return
		}
		for i := 0; i < want; i++ {
			st, r := steps[si][i], z.recs[before+i]
			wantMethod := "/p.S.A"
			if st.kind == 1 {
				wantMethod = "/p.S.B"
			}
			vCheck("W1.scenario.named.method.is.called", r.method == wantMethod)
			vCheck("W2.scenario.message.of.the.methods.input.type", r.typeOK)
			vCheck("W2.scenario.message.is.the.calls.payload", r.payload == `{"f":"`+st.val+`"}`)
			vCheck("W3.scenario.metadata.as.written", zMdEqual(r.md, st.md))
			vCheck("W5.scenario.deadline.is.the.timeout", r.deadline >= int64(wantTimeout) && r.deadline <= int64(wantTimeout)+int64(spent))
			vCheck("W4.scenario.sent.step.sample.ok", ag.samples[samplesBefore+i].ProtoCode() == 200)
		}
		if want < len(steps[si]) {
			c := ag.samples[samplesBefore+want].ProtoCode()
			vCheck("W4.scenario.bad.step.is.a.failed.sample", c == 0 || c >= 400)
		}
		// the shared definition is left as written
		for i, st := range steps[si] {
			vCheck("W3.scenario.definition.metadata.untouched", len(scens[si].Calls[i].Metadata) == len(st.md))
			def := st.md
			if st.tmpl != nil {
				def = st.tmpl
			}
			for k, v := range def {
				vCheck("W3.scenario.definition.metadata.untouched", scens[si].Calls[i].Metadata[k] == v)
			}
		}
	}
	vObserve("recs", int64(len(z.recs)))
	vReach("end")
	_ = time.Second
}

// the outgoing metadata as the transport will read (and validate) it. metadata.FromOutgoingContext
// lower-cases the keys on the way out and would hide a key sent with an upper-case letter; the raw
// accessor is not exported by this grpc version. Symbolically NewOutgoingContext is a harness stub that
// remembers what it was given; natively the context chain is walked by reflection.
var zRaw struct {
	md  metadata.MD
	set bool
}

func vStub_google_golang_org_grpc_metadata_NewOutgoingContext(ctx context.Context, md metadata.MD) context.Context {
	zRaw.md, zRaw.set = md, true
	return ctx
}

func zPeek(f reflect.Value) interface{} {
	return reflect.NewAt(f.Type(), unsafe.Pointer(f.UnsafeAddr())).Elem().Interface()
}

func zRawMD(ctx context.Context) (metadata.MD, bool) {
	if !vNative() {
		md, ok := zRaw.md, zRaw.set
		zRaw.md, zRaw.set = nil, false
		return md.Copy(), ok
	}
	for ctx != nil {
		v := reflect.ValueOf(ctx)
		if v.Kind() != reflect.Ptr || v.Elem().Kind() != reflect.Struct {
			return nil, false
		}
		e := v.Elem()
		if e.Type().String() == "context.valueCtx" {
			key := zPeek(e.FieldByName("key"))
			if reflect.TypeOf(key).String() == "metadata.mdOutgoingKey" {
				rv := reflect.ValueOf(zPeek(e.FieldByName("val")))
				out := metadata.MD{}
				md := rv.FieldByName("md")
				for _, k := range md.MapKeys() {
					vs := md.MapIndex(k)
					for i := 0; i < vs.Len(); i++ {
						out[k.String()] = append(out[k.String()], vs.Index(i).String())
					}
				}
				added := rv.FieldByName("added")
				for i := 0; i < added.Len(); i++ {
					kv := added.Index(i)
					for j := 0; j+1 < kv.Len(); j += 2 {
						out[kv.Index(j).String()] = append(out[kv.Index(j).String()], kv.Index(j+1).String())
					}
				}
				return out, true
			}
		}
		pf := e.FieldByName("Context")
		if !pf.IsValid() {
			if c := e.FieldByName("cancelCtx"); c.IsValid() {
				pf = c.FieldByName("Context")
			}
		}
		if !pf.IsValid() {
			return nil, false
		}
		ctx, _ = zPeek(pf).(context.Context)
	}
	return nil, false
}
