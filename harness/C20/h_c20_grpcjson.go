package grpcjson

import (
	"context"
	"encoding/json"
	"errors"
	"strconv"
	"strings"
	"sync"

	jsoniter "github.com/json-iterator/go"
	"github.com/spf13/afero"
	ammo "github.com/yandex/pandora/components/providers/grpc"
	"github.com/yandex/pandora/core"
	"go.uber.org/zap"
)

// ---- C20 (pandora's part), grpc/json ammo: every entry is delivered exactly as its line says
// (tag, call, metadata, payload) - whatever ammo objects the provider's pool recycles, and also
// when other lines are malformed and skipped. jsoniter.Unmarshal (reflection driven) is replaced
// symbolically by a stub with the library's documented semantics for a reused target (fields
// absent from the document stay, maps are merged); the native replay parses with the real library.

type jFile struct {
	afero.File
	r *strings.Reader
}

func (f *jFile) Read(p []byte) (int, error)                 { return f.r.Read(p) }
func (f *jFile) Seek(off int64, whence int) (int64, error) { return f.r.Seek(off, whence) }
func (f *jFile) Close() error                               { return nil }

type jFs struct {
	afero.Fs
	content string
}

func (fs *jFs) Open(name string) (afero.File, error) { return &jFile{r: strings.NewReader(fs.content)}, nil }

type jEntry struct {
	line    string
	bad     bool
	tag     string
	call    string
	hasMeta bool
	meta    map[string]string
	hasPay  bool
	pay     map[string]string
}

var jLines map[string]*jEntry

func vStub_github_com_json_iterator_go_Unmarshal(data []byte, v interface{}) error {
	return jUnmarshal(data, v, false)
}

// a configuration of the library frozen by pandora (jsoniter.Config{...}.Froze()): the same model,
// told whether numbers are kept as written (UseNumber) or turned into float64
type jAPI struct {
	jsoniter.API
	useNumber bool
}

func (a *jAPI) Unmarshal(data []byte, v interface{}) error { return jUnmarshal(data, v, a.useNumber) }

func vStub__github_com_json_iterator_go_Config__Froze(cfg jsoniter.Config) jsoniter.API {
	return &jAPI{useNumber: cfg.UseNumber}
}

// numeric payloads (HarnessC20NumericPayload): the document's number lands in an interface{} target as
// a float64 - the nearest double, ties to even: exact below 2^53, a multiple of 2 below 2^54 - unless
// the configuration keeps numbers as written (json.Number)
var jNum struct {
	active  bool
	n       int64
	rounded int64
}

func jRoundToDouble(n int64) int64 {
	if n < 1<<53 {
		return n
	}
	switch n % 4 {
	case 1:
		return n - 1
	case 3:
		return n + 1
	}
	return n
}

// encoding/json.Marshal of the one-field numeric payload: a float64 that holds an integer below 1e21
// is printed as that integer, a json.Number as its text
func vStub_encoding_json_Marshal(v any) ([]byte, error) {
	mp := v.(map[string]interface{})
	switch x := mp["n"].(type) {
	case float64:
		return []byte(`{"n":` + strconv.FormatInt(jNum.rounded, 10) + `}`), nil
	case json.Number:
		return []byte(`{"n":` + string(x) + `}`), nil
	}
	return nil, errors.New("json: unsupported value in this harness")
}

func jUnmarshal(data []byte, v interface{}, useNumber bool) error {
	if jNum.active {
		am := v.(*ammo.Ammo)
		am.Tag, am.Call = "t", "p.S.A"
		if am.Payload == nil {
			am.Payload = map[string]interface{}{}
		}
		if useNumber {
			am.Payload["n"] = json.Number(strconv.FormatInt(jNum.n, 10))
		} else {
			jNum.rounded = jRoundToDouble(jNum.n)
			am.Payload["n"] = float64(jNum.rounded)
		}
		return nil
	}
	e := jLines[string(data)]
	if e == nil || e.bad {
		return errors.New("jsoniter: syntax error")
	}
	am := v.(*ammo.Ammo)
	am.Tag, am.Call = e.tag, e.call // (every line of this harness has both keys)
	if e.hasMeta {
		if am.Metadata == nil {
			am.Metadata = map[string]string{}
		}
		for k, v := range e.meta {
			am.Metadata[k] = v
		}
	}
	if e.hasPay {
		if am.Payload == nil {
			am.Payload = map[string]interface{}{}
		}
		for k, v := range e.pay {
			am.Payload[k] = v
		}
	}
	return nil
}

func jRender(m map[string]string, keys []string) string {
	var parts []string
	for _, k := range keys {
		if v, ok := m[k]; ok {
			parts = append(parts, `"`+k+`":"`+v+`"`)
		}
	}
	return "{" + strings.Join(parts, ",") + "}"
}

func jMakeEntry(i int) *jEntry {
	idx := string(rune('0' + i))
	e := &jEntry{tag: "t" + idx, call: []string{"p.S.A", "p.S.B"}[i%2]}
	switch vConcretize(vNondetInt("meta", 0, 3)) {
	case 1:
		e.hasMeta, e.meta = true, map[string]string{}
	case 2:
		e.hasMeta, e.meta = true, map[string]string{"k": "v" + idx}
	case 3:
		e.hasMeta, e.meta = true, map[string]string{"k": "v" + idx, "auth": "a" + idx}
	}
	switch vConcretize(vNondetInt("pay", 0, 2)) {
	case 1:
		e.hasPay, e.pay = true, map[string]string{"f": "x" + idx}
	case 2:
		e.hasPay, e.pay = true, map[string]string{"g": "y" + idx}
	}
	e.line = `{"tag":"` + e.tag + `","call":"` + e.call + `"`
	if e.hasMeta {
		e.line += `,"metadata":` + jRender(e.meta, []string{"k", "auth"})
	}
	if e.hasPay {
		e.line += `,"payload":` + jRender(e.pay, []string{"f", "g"})
	}
	e.line += "}"
	return e
}

func jSame(am *ammo.Ammo, e *jEntry) bool {
	if am.Tag != e.tag || am.Call != e.call || len(am.Metadata) != len(e.meta) || len(am.Payload) != len(e.pay) {
		return false
	}
	for k, v := range e.meta {
		if am.Metadata[k] != v {
			return false
		}
	}
	for k, v := range e.pay {
		if s, ok := am.Payload[k].(string); !ok || s != v {
			return false
		}
	}
	return true
}

func HarnessC20GrpcJSONEntries() {
	E := int(vConcretize(vNondetInt("E", 1, vHi(2, 3))))
	jLines = map[string]*jEntry{}
	var es []*jEntry
	var lines []string
	badAt := int(vConcretize(vNondetInt("badAt", -1, int64(E)-1))) // a malformed line, skipped (continue_on_error)
	for i := 0; i < E; i++ {
		e := jMakeEntry(i)
		if i == badAt {
			e.bad = true
			e.line = `{"tag":` + string(rune('0'+i))
		}
		jLines[e.line] = e
		es = append(es, e)
		lines = append(lines, e.line)
	}
	passes := int(vConcretize(vNondetInt("passes", 1, 2)))
	fs := &jFs{content: strings.Join(lines, "\n") + "\n"}
	p := NewProvider(fs, Config{File: "ammo", Passes: passes, ContinueOnError: badAt >= 0})
	// ammo objects released by instances earlier in the run (here: planted) are recycled
	dirty := int(vConcretize(vNondetInt("dirty", 0, 2)))
	for i := 0; i < dirty; i++ {
		old := &ammo.Ammo{Tag: "old", Call: "old.Call", Metadata: map[string]string{"stale": "s"}, Payload: map[string]interface{}{"stale": "s"}}
		if i == 1 {
			old.Invalidate()
		}
		p.Release(old)
	}
	var runErr error
	var wg sync.WaitGroup
	wg.Add(1)
	go func() {
		defer wg.Done()
		runErr = p.Run(context.Background(), core.ProviderDeps{Log: zap.NewNop()})
	}()
	got := 0
	for {
		a, ok := p.Acquire()
		if !ok {
			break
		}
		am := a.(*ammo.Ammo)
		e := es[got%E]
		if e.bad {
			vCheck("J2.malformed.line.delivered.as.invalid", am.IsInvalid())
		} else {
			vCheck("J1.entry.as.written", jSame(am, e))
			vCheck("J1.entry.valid", am.IsValid())
		}
		got++
		p.Release(a) // the instance is done with it: it may be recycled for a later line
	}
	wg.Wait()
	vCheck("J3.every.line.every.pass", got == E*passes)
	vCheck("J3.run.ok", runErr == nil)
	vObserve("got", int64(got))
	vReach("end")
}


// ---- C20: an integer payload field reaches the message as written. The entry's line carries
// `"payload":{"n":N}` with N any integer below 2^54 (int64 ids, timestamps in ns); the provider decodes
// the line (decodeAmmo) and the gun hands json.Marshal(payload) to the message's UnmarshalJSON: that text
// is `{"n":N}` with the digits of the line. Symbolically jsoniter and encoding/json are the contract
// stubs above (a number decoded into interface{} becomes the nearest float64 unless the configuration
// keeps numbers as written); natively the real libraries parse and print.
func HarnessC20NumericPayload() {
	n := vNondetInt("n", 0, 1<<54-1)
	jNum.active, jNum.n = true, n
	defer func() { jNum.active = false }()
	digits := strconv.FormatInt(n, 10)
	line := `{"tag":"t","call":"p.S.A","payload":{"n":` + digits + `}}`
	am, err := decodeAmmo([]byte(line), &ammo.Ammo{})
	vCheck("W6.numeric.line.accepted", err == nil)
	if err != nil {
		return
	}
	js, err := json.Marshal(am.Payload)
	vCheck("W6.payload.marshals", err == nil)
	vCheck("W6.integer.payload.as.written", string(js) == `{"n":`+digits+`}`)
	vObserve("len", int64(len(js)))
	vReach("end")
}
