package grpcjson

import (
	"context"
	"errors"
	"strings"
	"sync"

	"github.com/spf13/afero"
	ammo "github.com/yandex/pandora/components/providers/grpc"
	"github.com/yandex/pandora/core"
	"go.uber.org/zap"
)

// ---- C20 (pandora's part), grpc/json ammo: every entry is delivered exactly as its line says
// (tag, call, metadata, payload) - whatever ammo objects the provider's pool recycles, and also
// when other lines are malformed and skipped. jsoniter.Unmarshal (reflection driven) is replaced
// symbolically by a stub with the library's documented semantics for a reused target (fields
// absent from the document stay, maps are merged); the native replay parses with the real library.

type jFile struct {
	afero.File
	r *strings.Reader
}

func (f *jFile) Read(p []byte) (int, error)                 { return f.r.Read(p) }
func (f *jFile) Seek(off int64, whence int) (int64, error) { return f.r.Seek(off, whence) }
func (f *jFile) Close() error                               { return nil }

type jFs struct {
	afero.Fs
	content string
}

func (fs *jFs) Open(name string) (afero.File, error) { return &jFile{r: strings.NewReader(fs.content)}, nil }

type jEntry struct {
	line    string
	bad     bool
	tag     string
	call    string
	hasMeta bool
	meta    map[string]string
	hasPay  bool
	pay     map[string]string
}

var jLines map[string]*jEntry

func vStub_github_com_json_iterator_go_Unmarshal(data []byte, v interface{}) error {
	e := jLines[string(data)]
	if e == nil || e.bad {
		return errors.New("jsoniter: syntax error")
	}
	am := v.(*ammo.Ammo)
	am.Tag, am.Call = e.tag, e.call // (every line of this harness has both keys)
	if e.hasMeta {
		if am.Metadata == nil {
			am.Metadata = map[string]string{}
		}
		for k, v := range e.meta {
			am.Metadata[k] = v
		}
	}
	if e.hasPay {
		if am.Payload == nil {
			am.Payload = map[string]interface{}{}
		}
		for k, v := range e.pay {
			am.Payload[k] = v
		}
	}
	return nil
}

func jRender(m map[string]string, keys []string) string {
	var parts []string
	for _, k := range keys {
		if v, ok := m[k]; ok {
			parts = append(parts, `"`+k+`":"`+v+`"`)
		}
	}
	return "{" + strings.Join(parts, ",") + "}"
}

func jMakeEntry(i int) *jEntry {
	idx := string(rune('0' + i))
	e := &jEntry{tag: "t" + idx, call: []string{"p.S.A", "p.S.B"}[i%2]}
	switch vConcretize(vNondetInt("meta", 0, 3)) {
	case 1:
		e.hasMeta, e.meta = true, map[string]string{}
	case 2:
		e.hasMeta, e.meta = true, map[string]string{"k": "v" + idx}
	case 3:
		e.hasMeta, e.meta = true, map[string]string{"k": "v" + idx, "auth": "a" + idx}
	}
	switch vConcretize(vNondetInt("pay", 0, 2)) {
	case 1:
		e.hasPay, e.pay = true, map[string]string{"f": "x" + idx}
	case 2:
		e.hasPay, e.pay = true, map[string]string{"g": "y" + idx}
	}
	e.line = `{"tag":"` + e.tag + `","call":"` + e.call + `"`
	if e.hasMeta {
		e.line += `,"metadata":` + jRender(e.meta, []string{"k", "auth"})
	}
	if e.hasPay {
		e.line += `,"payload":` + jRender(e.pay, []string{"f", "g"})
	}
	e.line += "}"
	return e
}

func jSame(am *ammo.Ammo, e *jEntry) bool {
	if am.Tag != e.tag || am.Call != e.call || len(am.Metadata) != len(e.meta) || len(am.Payload) != len(e.pay) {
		return false
	}
	for k, v := range e.meta {
		if am.Metadata[k] != v {
			return false
		}
	}
	for k, v := range e.pay {
		if s, ok := am.Payload[k].(string); !ok || s != v {
			return false
		}
	}
	return true
}

func HarnessC20GrpcJSONEntries() {
	E := int(vConcretize(vNondetInt("E", 1, vHi(2, 3))))
	jLines = map[string]*jEntry{}
	var es []*jEntry
	var lines []string
	badAt := int(vConcretize(vNondetInt("badAt", -1, int64(E)-1))) // a malformed line, skipped (continue_on_error)
	for i := 0; i < E; i++ {
		e := jMakeEntry(i)
		if i == badAt {
			e.bad = true
			e.line = `{"tag":` + string(rune('0'+i))
		}
		jLines[e.line] = e
		es = append(es, e)
		lines = append(lines, e.line)
	}
	passes := int(vConcretize(vNondetInt("passes", 1, 2)))
	fs := &jFs{content: strings.Join(lines, "\n") + "\n"}
	p := NewProvider(fs, Config{File: "ammo", Passes: passes, ContinueOnError: badAt >= 0})
	// ammo objects released by instances earlier in the run (here: planted) are recycled
	dirty := int(vConcretize(vNondetInt("dirty", 0, 2)))
	for i := 0; i < dirty; i++ {
		old := &ammo.Ammo{Tag: "old", Call: "old.Call", Metadata: map[string]string{"stale": "s"}, Payload: map[string]interface{}{"stale": "s"}}
		if i == 1 {
			old.Invalidate()
		}
		p.Release(old)
	}
	var runErr error
	var wg sync.WaitGroup
	wg.Add(1)
	go func() {
		defer wg.Done()
		runErr = p.Run(context.Background(), core.ProviderDeps{Log: zap.NewNop()})
	}()
	got := 0
	for {
		a, ok := p.Acquire()
		if !ok {
			break
		}
		am := a.(*ammo.Ammo)
		e := es[got%E]
		if e.bad {
			vCheck("J2.malformed.line.delivered.as.invalid", am.IsInvalid())
		} else {
			vCheck("J1.entry.as.written", jSame(am, e))
			vCheck("J1.entry.valid", am.IsValid())
		}
		got++
		p.Release(a) // the instance is done with it: it may be recycled for a later line
	}
	wg.Wait()
	vCheck("J3.every.line.every.pass", got == E*passes)
	vCheck("J3.run.ok", runErr == nil)
	vObserve("got", int64(got))
	vReach("end")
}
