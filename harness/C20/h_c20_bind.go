package grpc

import (
	"context"

	"github.com/jhump/protoreflect/desc"
	"github.com/jhump/protoreflect/dynamic/grpcdynamic"
	"github.com/yandex/pandora/core"
	"go.uber.org/zap"
	ggrpc "google.golang.org/grpc"
)

// ---- C20 (pandora's part), connections: with shared-client every instance's calls go through one
// of the `client-number` connections made at warm-up (no further dialing), spread over the instances;
// without it every instance dials its own connection. Every gun gets the method table of the
// warm-up. grpc.DialContext is a harness stub symbolically (a fresh connection object per dial);
// natively the real library dials lazily to a port nobody listens on.

var c20bind struct{ conns []*ggrpc.ClientConn }

func vStub_google_golang_org_grpc_DialContext(ctx context.Context, target string, opts ...ggrpc.DialOption) (*ggrpc.ClientConn, error) {
	c := &ggrpc.ClientConn{}
	c20bind.conns = append(c20bind.conns, c)
	return c, nil
}

func c20ConnOf(g *Gun) *ggrpc.ClientConn {
	ch := vGetField(&g.Stub, "channel")
	c, _ := ch.(*ggrpc.ClientConn)
	return c
}

func HarnessC20BindSharedClient() {
	c20bind.conns = nil
	conf := DefaultGunConfig()
	conf.Target = "127.0.0.1:1"
	conf.SharedClient.Enabled = vNondetBool("shared")
	k := int(vConcretize(vNondetInt("clients", 0, 2))) // 0: not set (one client)
	conf.SharedClient.ClientNumber = k
	n := int(vConcretize(vNondetInt("instances", 2, 3)))
	warm := NewGun(conf)
	pool, err := warm.prepareClientPool()
	vCheck("B0.pool.prepared", err == nil)
	if err != nil {
		return
	}
	shared := &SharedDeps{services: c20Services(), clientPool: pool}
	poolConns := map[*ggrpc.ClientConn]bool{}
	if conf.SharedClient.Enabled {
		want := k
		if want < 1 {
			want = 1
		}
		if pool == nil {
			vCheck("B1.as.many.shared.connections.as.configured", false)
			return
		}
		stubs := vGetField(pool, "pool").([]grpcdynamic.Stub)
		vCheck("B1.as.many.shared.connections.as.configured", len(stubs) == want)
		for i := range stubs {
			c, _ := vGetField(&stubs[i], "channel").(*ggrpc.ClientConn)
			poolConns[c] = true
		}
		vCheck("B1.shared.connections.distinct", len(poolConns) == want)
	} else {
		vCheck("B1.no.pool.without.shared.client", pool == nil)
	}
	used := map[*ggrpc.ClientConn]int{}
	for i := 0; i < n; i++ {
		g := NewGun(conf)
		err := g.Bind(c20NopAggr{}, core.GunDeps{Ctx: context.Background(), Log: zap.NewNop(), Shared: shared, InstanceID: i})
		vCheck("B2.bind.ok", err == nil)
		if err != nil {
			return
		}
		c := c20ConnOf(g)
		vCheck("B2.gun.has.a.connection", c != nil)
		used[c]++
		vCheck("B2.gun.has.the.warmup.method.table", len(g.Services) == 2)
		if conf.SharedClient.Enabled {
			vCheck("B3.shared.gun.uses.a.warmup.connection", poolConns[c])
		}
	}
	if conf.SharedClient.Enabled {
		// spread: no connection carries more than its share (rounded up) of the instances
		per := (n + len(poolConns) - 1) / len(poolConns)
		for _, cnt := range used {
			vCheck("B3.instances.spread.over.the.shared.connections", cnt <= per)
		}
	} else {
		vCheck("B4.own.connection.per.instance", len(used) == n)
	}
	vObserve("used", int64(len(used)))
	vReach("end")
}

type c20NopAggr struct{}

func (c20NopAggr) Report(core.Sample)                                   {}
func (c20NopAggr) Run(ctx context.Context, _ core.AggregatorDeps) error { return nil }

var _ = desc.MethodDescriptor{}
