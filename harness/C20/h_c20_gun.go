package grpc

import (
	"reflect"
	"unsafe"

	"context"
	"errors"
	"strings"
	"time"

	"github.com/golang/protobuf/proto"
	"github.com/jhump/protoreflect/desc"
	"github.com/jhump/protoreflect/dynamic"
	"github.com/jhump/protoreflect/dynamic/grpcdynamic"
	ammo "github.com/yandex/pandora/components/providers/grpc"
	"github.com/yandex/pandora/core"
	"github.com/yandex/pandora/core/aggregator/netsample"
	"go.uber.org/zap"
	ggrpc "google.golang.org/grpc"
	"google.golang.org/grpc/metadata"
	"google.golang.org/protobuf/types/descriptorpb"
)

// ---- C20 (pandora's part): what the gRPC gun hands to the gRPC library for each ammo entry.
// The boundary observed is Stub.InvokeRpc / ClientConn.Invoke: the method, the request message,
// the outgoing metadata and the deadline of the context.
//
// Symbolically the protobuf/reflection library is a set of harness stubs that keep the identity of
// what they are given: GetInputType answers the input-type marker planted in the method descriptor,
// NewMessage remembers the type it was made for, UnmarshalJSON stores the JSON text in the message
// (and rejects a payload with an unknown field), json.Marshal renders the one-field payload maps of
// this harness, InvokeRpc records (method marker, message type, JSON text, metadata, deadline).
// The native replay uses the real library: descriptors built from a FileDescriptorProto, a real
// grpcdynamic.Stub over a channel that records the method string, the message (rendered back to
// JSON), the metadata and the deadline.

type c20Rec struct {
	method   string
	typeOK   bool
	payload  string
	md       map[string][]string
	deadline int64 // ns after the clock reading taken right before the shot; -1 = none
}

var c20 struct {
	recs    []c20Rec
	t0      time.Time
	inTypes map[string]*desc.MessageDescriptor
}

func vStub_encoding_json_Marshal(v any) ([]byte, error) {
	mp := v.(map[string]interface{})
	if _, bad := mp["nope"]; bad {
		return []byte(`{"nope":1}`), nil
	}
	return []byte(`{"f":"` + mp["f"].(string) + `"}`), nil
}
func vStub___github_com_jhump_protoreflect_desc_MethodDescriptor__GetInputType(md *desc.MethodDescriptor) *desc.MessageDescriptor {
	return vGetField(md, "inType").(*desc.MessageDescriptor)
}
func vStub_github_com_jhump_protoreflect_dynamic_NewMessage(md *desc.MessageDescriptor) *dynamic.Message {
	m := &dynamic.Message{}
	vSetField(m, "md", md)
	return m
}
func vStub___github_com_jhump_protoreflect_dynamic_Message__UnmarshalJSON(m *dynamic.Message, js []byte) error {
	if strings.Contains(string(js), "nope") {
		return errors.New("message type has no known field named nope")
	}
	vSetField(m, "values", map[int32]interface{}{1: string(js)})
	return nil
}
func vStub__github_com_jhump_protoreflect_dynamic_grpcdynamic_Stub__InvokeRpc(s grpcdynamic.Stub, ctx context.Context, method *desc.MethodDescriptor, request proto.Message, opts ...ggrpc.CallOption) (proto.Message, error) {
	marker := vGetField(method, "sourceInfoPath").([]int32)
	name := "/p.S.A"
	if marker[0] == 2 {
		name = "/p.S.B"
	}
	msg := request.(*dynamic.Message)
	r := c20Rec{method: name}
	r.typeOK = vGetField(msg, "md").(*desc.MessageDescriptor) == vGetField(method, "inType").(*desc.MessageDescriptor)
	if vals := vGetField(msg, "values").(map[int32]interface{}); vals != nil {
		r.payload, _ = vals[1].(string)
	}
	c20Ctx(ctx, &r)
	c20.recs = append(c20.recs, r)
	return &dynamic.Message{}, nil
}

func c20Ctx(ctx context.Context, r *c20Rec) {
	if md, ok := c20RawMD(ctx); ok {
		r.md = md
	}
	r.deadline = -1
	if d, ok := ctx.Deadline(); ok {
		r.deadline = int64(d.Sub(c20.t0))
	}
}

type c20Chan struct{}

func (c20Chan) Invoke(ctx context.Context, method string, args, reply any, opts ...ggrpc.CallOption) error {
	r := c20Rec{method: method, typeOK: true}
	if m, ok := args.(*dynamic.Message); ok {
		js, err := m.MarshalJSON()
		if err != nil {
			panic(err)
		}
		r.payload = string(js)
		want := ".p.ReqA"
		if method == "/p.S.B" {
			want = ".p.ReqB"
		}
		r.typeOK = "."+m.GetMessageDescriptor().GetFullyQualifiedName() == want
	}
	c20Ctx(ctx, &r)
	c20.recs = append(c20.recs, r)
	return nil
}
func (c20Chan) NewStream(ctx context.Context, d *ggrpc.StreamDesc, method string, opts ...ggrpc.CallOption) (ggrpc.ClientStream, error) {
	return nil, errors.New("no streams")
}

func c20NativeMethods() (a, b desc.MethodDescriptor) {
	str := descriptorpb.FieldDescriptorProto_TYPE_STRING
	opt := descriptorpb.FieldDescriptorProto_LABEL_OPTIONAL
	f := []*descriptorpb.FieldDescriptorProto{{Name: proto.String("f"), Number: proto.Int32(1), Type: &str, Label: &opt, JsonName: proto.String("f")}}
	fdp := &descriptorpb.FileDescriptorProto{
		Name: proto.String("c20.proto"), Package: proto.String("p"), Syntax: proto.String("proto3"),
		MessageType: []*descriptorpb.DescriptorProto{{Name: proto.String("ReqA"), Field: f}, {Name: proto.String("ReqB"), Field: f}, {Name: proto.String("Resp")}},
		Service: []*descriptorpb.ServiceDescriptorProto{{Name: proto.String("S"), Method: []*descriptorpb.MethodDescriptorProto{
			{Name: proto.String("A"), InputType: proto.String(".p.ReqA"), OutputType: proto.String(".p.Resp")},
			{Name: proto.String("B"), InputType: proto.String(".p.ReqB"), OutputType: proto.String(".p.Resp")}}}},
	}
	fd, err := desc.CreateFileDescriptor(fdp)
	if err != nil {
		panic(err)
	}
	return *fd.FindService("p.S").FindMethodByName("A"), *fd.FindService("p.S").FindMethodByName("B")
}

type c20Aggr struct{ samples []*netsample.Sample }

func (a *c20Aggr) Report(s core.Sample)                                 { a.samples = append(a.samples, s.(*netsample.Sample)) }
func (a *c20Aggr) Run(ctx context.Context, _ core.AggregatorDeps) error { return nil }

// c20Services builds the method table the warm-up would have obtained by reflection.
func c20Services() map[string]desc.MethodDescriptor {
	var mdA, mdB desc.MethodDescriptor
	if vNative() {
		mdA, mdB = c20NativeMethods()
	} else {
		vSetField(&mdA, "sourceInfoPath", []int32{1})
		vSetField(&mdB, "sourceInfoPath", []int32{2})
		vSetField(&mdA, "inType", &desc.MessageDescriptor{})
		vSetField(&mdB, "inType", &desc.MessageDescriptor{})
	}
	return map[string]desc.MethodDescriptor{"p.S.A": mdA, "p.S.B": mdB}
}

type c20Entry struct {
	kind int64 // 0 method A, 1 method B, 2 unknown method, 3 payload that does not fit, 4 invalidated by the provider
	val  string
	md   map[string]string
}

func c20Entries(n int) []c20Entry {
	var es []c20Entry
	for i := 0; i < n; i++ {
		e := c20Entry{kind: vConcretize(vNondetInt("kind", 0, 4))}
		c := vNondetInt("val", 'a', 'z')
		e.val = string(rune(c))
		switch vConcretize(vNondetInt("mdShape", 0, 3)) {
		case 1:
			e.md = map[string]string{"k": string(rune(vNondetInt("mdv", 'a', 'z')))}
		case 2:
			e.md = map[string]string{"k": string(rune(vNondetInt("mdv", 'a', 'z'))), "Auth": "t" + string(rune(vNondetInt("mdv", 'a', 'z')))}
		case 3:
			e.md = map[string]string{}
		}
		es = append(es, e)
	}
	return es
}

func c20MdEqual(got map[string][]string, want map[string]string) bool {
	if len(got) != len(want) {
		return false
	}
	for k, v := range want {
		g := got[strings.ToLower(k)]
		if len(g) != 1 || g[0] != v {
			return false
		}
	}
	return true
}

// HarnessC20GunEntries: 1-3 ammo entries shot one after the other by one gun; entries may name an
// unknown method or carry a payload that does not fit; the timeout is the default or configured.
func HarnessC20GunEntries() {
	n := int(vConcretize(vNondetInt("n", 1, 3)))
	es := c20Entries(n)
	confTimeout := time.Duration(vConcretize(vNondetInt("timeoutSec", 0, 2))) * time.Second
	c20.recs = nil
	g := NewGun(GunConfig{Target: "t:1", Timeout: confTimeout})
	ag := &c20Aggr{}
	g.Aggr, g.AnswLog = ag, zap.NewNop()
	g.GunDeps = core.GunDeps{Ctx: context.Background(), Log: zap.NewNop()}
	if vNative() {
		g.Stub = grpcdynamic.NewStub(c20Chan{})
	}
	g.Services = c20Services()
	wantTimeout := 15 * time.Second // documented default
	if confTimeout != 0 {
		wantTimeout = confTimeout
	}
	sent := 0
	for i, e := range es {
		am := &ammo.Ammo{Tag: "tg", Call: "p.S.A", Payload: map[string]interface{}{"f": e.val}, Metadata: e.md}
		switch e.kind {
		case 1:
			am.Call = "p.S.B"
		case 2:
			am.Call = "p.S.Nope"
		case 3:
			am.Payload = map[string]interface{}{"nope": 1}
		case 4:
			// what grpc/json hands over for a malformed line under continue_on_error: an ammo object
			// marked invalid (it may still hold what an earlier entry left in the recycled object)
			am.Invalidate()
		}
		before := len(c20.recs)
		c20.t0 = time.Now()
		g.Shoot(am)
		spent := time.Since(c20.t0)
		vCheck("W4.one.sample.per.entry", len(ag.samples) == i+1)
		if len(ag.samples) != i+1 {
			return
		}
		s := ag.samples[i]
		if e.kind >= 2 {
			vCheck("W4.bad.entry.not.sent", len(c20.recs) == before)
			vCheck("W4.bad.entry.is.a.failed.sample", s.ProtoCode() == 0 || s.ProtoCode() >= 400)
			continue
		}
		sent++
		vCheck("W1.exactly.one.call.per.entry", len(c20.recs) == before+1)
		if len(c20.recs) != before+1 {
			return
		}
		r := c20.recs[before]
		wantMethod := "/p.S.A"
		if e.kind == 1 {
			wantMethod = "/p.S.B"
		}
		vCheck("W1.named.method.is.called", r.method == wantMethod)
		vCheck("W2.message.of.the.methods.input.type", r.typeOK)
		vCheck("W2.message.is.the.entrys.payload", r.payload == `{"f":"`+e.val+`"}`)
		vCheck("W3.metadata.attached.as.written", c20MdEqual(r.md, e.md))
		vCheck("W5.deadline.set", r.deadline >= 0)
		vCheck("W5.deadline.is.the.timeout.lo", r.deadline >= int64(wantTimeout))
		vCheck("W5.deadline.is.the.timeout.hi", r.deadline <= int64(wantTimeout)+int64(spent))
		vCheck("W4.good.entry.sample.ok", s.ProtoCode() == 200)
		// the ammo is not altered by the shot
		vCheck("W3.ammo.metadata.untouched", len(am.Metadata) == len(e.md))
	}
	vObserve("sent", int64(sent))
	vObserve("recs", int64(len(c20.recs)))
	vReach("end")
}

// the outgoing metadata as the transport will read (and validate) it. metadata.FromOutgoingContext
// lower-cases the keys on the way out and would hide a key sent with an upper-case letter; the raw
// accessor is not exported by this grpc version. Symbolically NewOutgoingContext is a harness stub that
// remembers what it was given; natively the context chain is walked by reflection.
var c20Raw struct {
	md  metadata.MD
	set bool
}

func vStub_google_golang_org_grpc_metadata_NewOutgoingContext(ctx context.Context, md metadata.MD) context.Context {
	c20Raw.md, c20Raw.set = md, true
	return ctx
}

func c20Peek(f reflect.Value) interface{} {
	return reflect.NewAt(f.Type(), unsafe.Pointer(f.UnsafeAddr())).Elem().Interface()
}

func c20RawMD(ctx context.Context) (metadata.MD, bool) {
	if !vNative() {
		md, ok := c20Raw.md, c20Raw.set
		c20Raw.md, c20Raw.set = nil, false
		return md.Copy(), ok
	}
	for ctx != nil {
		v := reflect.ValueOf(ctx)
		if v.Kind() != reflect.Ptr || v.Elem().Kind() != reflect.Struct {
			return nil, false
		}
		e := v.Elem()
		if e.Type().String() == "context.valueCtx" {
			key := c20Peek(e.FieldByName("key"))
			if reflect.TypeOf(key).String() == "metadata.mdOutgoingKey" {
				rv := reflect.ValueOf(c20Peek(e.FieldByName("val")))
				out := metadata.MD{}
				md := rv.FieldByName("md")
				for _, k := range md.MapKeys() {
					vs := md.MapIndex(k)
					for i := 0; i < vs.Len(); i++ {
						out[k.String()] = append(out[k.String()], vs.Index(i).String())
					}
				}
				added := rv.FieldByName("added")
				for i := 0; i < added.Len(); i++ {
					kv := added.Index(i)
					for j := 0; j+1 < kv.Len(); j += 2 {
						out[kv.Index(j).String()] = append(out[kv.Index(j).String()], kv.Index(j+1).String())
					}
				}
				return out, true
			}
		}
		pf := e.FieldByName("Context")
		if !pf.IsValid() {
			if c := e.FieldByName("cancelCtx"); c.IsValid() {
				pf = c.FieldByName("Context")
			}
		}
		if !pf.IsValid() {
			return nil, false
		}
		ctx, _ = c20Peek(pf).(context.Context)
	}
	return nil, false
}
