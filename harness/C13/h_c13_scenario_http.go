package http

import (
	"time"

	"github.com/yandex/pandora/components/providers/scenario/config"
)

// ---- C13 + C15/X3: expansion of a scenario's request list name(count, sleep) / sleep(ms) ----

func c13Item(i int) (item string, name string, cnt int64, sleepMs int64, isSleep bool) {
	kind := vConcretize(vNondetInt("kind", 0, 4))
	d1 := vNondetInt("d1", 0, 3)
	d2 := vNondetInt("d2", 0, 9)
	c1 := string(rune('0' + d1))
	c2 := string(rune('0' + d2))
	switch kind {
	case 0:
		return "a", "a", 1, 0, false
	case 1:
		return "sleep(" + c2 + ")", "sleep", 0, d2, true
	case 2:
		return "a(" + c1 + ")", "a", d1, 0, false
	case 3:
		return "b(" + c1 + ", " + c2 + ")", "b", d1, d2, false
	default:
		return "zz", "zz", 1, 0, false // unknown request
	}
}

func HarnessC13ScenarioRequests() {
	n := int(vConcretize(vNondetInt("n", 1, 3)))
	var items []string
	type exp struct {
		name  string
		sleep int64
	}
	var want []exp
	bad := false // unknown request, or sleep() with nothing before it
	for i := 0; i < n; i++ {
		it, name, cnt, sl, isSleep := c13Item(i)
		items = append(items, it)
		if bad {
			continue
		}
		if isSleep {
			if len(want) == 0 {
				bad = true
				continue
			}
			want[len(want)-1].sleep += sl
			continue
		}
		if name == "zz" {
			bad = true
			continue
		}
		for j := int64(0); j < cnt; j++ {
			want = append(want, exp{name, sl})
		}
	}
	reqs := map[string]config.RequestConfig{"a": {Name: "a", Method: "GET", URI: "/a"}, "b": {Name: "b", Method: "GET", URI: "/b"}}
	sc := config.ScenarioConfig{Name: "s", Requests: items}
	res, err := convertScenarioToAmmo(sc, reqs) // implicit: never panics
	if bad {
		vCheck("M3.malformed.list.rejected", err != nil)
		vReach("bad")
		return
	}
	vCheck("X3.wellformed.accepted", err == nil)
	if err != nil {
		return
	}
	vCheck("X3.expansion.length", len(res.Requests) == len(want))
	if len(res.Requests) != len(want) {
		return
	}
	// sleeps attach to the last expanded copy... every copy of name(n, sleep) carries its own sleep
	for i := range want {
		vCheck("X3.order.kept", res.Requests[i].Name == want[i].name)
		vCheck("X3.pause.of.each.copy", res.Requests[i].Sleep == time.Duration(want[i].sleep)*time.Millisecond)
	}
	vObserve("len", int64(len(want)))
	vReach("end")
	_ = time.Millisecond
}

// ---- C13: scenario weights. Any weights (negative ones are malformed) through decodeAmmo:
// rejected or spread, never a panic (make with a negative capacity).
func HarnessC13ScenarioWeights() {
	n := int(vConcretize(vNondetInt("n", 1, 3)))
	hi := int64(6)
	if vThorough() {
		hi = 12
	}
	cfg := &config.AmmoConfig{Requests: []config.RequestConfig{{Name: "a", Method: "GET", URI: "/a"}}}
	neg := false
	ws := make([]int64, n)
	for i := 0; i < n; i++ {
		ws[i] = vConcretize(vNondetInt("w", -hi, hi)) // case split: Euclid's loop runs on concrete weights
		if ws[i] < 0 {
			neg = true
		}
		cfg.Scenarios = append(cfg.Scenarios, config.ScenarioConfig{Name: string(rune('p' + i)), Weight: ws[i], Requests: []string{"a"}})
	}
	res, err := decodeAmmo(cfg, nil) // implicit: never panics
	if neg {
		vCheck("M5.negative.weight.rejected", err != nil)
		vReach("neg")
		return
	}
	vCheck("M5.valid.weights.accepted", err == nil)
	if err != nil {
		return
	}
	// every scenario is delivered at least once, in proportion to its weight (0 counts as 1)
	cnt := map[string]int64{}
	for _, s := range res {
		cnt[s.Name]++
	}
	for i := 0; i < n; i++ {
		w := ws[i]
		if w == 0 || n == 1 {
			w = 1
		}
		vCheck("M5.every.scenario.present", cnt[string(rune('p'+i))] >= 1)
		for j := 0; j < n; j++ {
			wj := ws[j]
			if wj == 0 || n == 1 {
				wj = 1
			}
			vCheck("M5.proportional", cnt[string(rune('p'+i))]*wj == cnt[string(rune('p'+j))]*w)
		}
	}
	vObserve("len", int64(len(res)))
	vReach("end")
}

// ---- C13: absurdly large scenario weights. Two scenarios whose weights are near the top of int64:
// when the weights have a common divisor that brings them down (equal weights, w and 2w) the
// scenarios are spread in proportion; when they do not (2^62 and 1, MaxInt64 and 2, a sum that
// leaves int64) the file is rejected with an error - never a panic (make with a capacity out of
// range) and never an attempt to build 2^62 copies.
func HarnessC13ScenarioHugeWeights() {
	const big = int64(1) << 62
	w0 := []int64{big, big + 1, 1<<63 - 1, 1<<63 - 2}[vConcretize(vNondetInt("w0", 0, 3))]
	w1 := []int64{1, 2, 3, big, 1<<63 - 1, 0}[vConcretize(vNondetInt("w1", 0, 5))]
	if vNondetBool("swap") {
		w0, w1 = w1, w0
	}
	cfg := &config.AmmoConfig{Requests: []config.RequestConfig{{Name: "a", Method: "GET", URI: "/a"}}}
	cfg.Scenarios = append(cfg.Scenarios, config.ScenarioConfig{Name: "p", Weight: w0, Requests: []string{"a"}})
	cfg.Scenarios = append(cfg.Scenarios, config.ScenarioConfig{Name: "q", Weight: w1, Requests: []string{"a"}})
	res, err := decodeAmmo(cfg, nil) // implicit: never panics
	e0, e1 := w0, w1
	if e0 == 0 {
		e0 = 1
	}
	if e1 == 0 {
		e1 = 1
	}
	small := e0 == e1 // the only pairs of this table that a common divisor brings down
	if !small {
		vCheck("M6.absurd.weights.rejected", err != nil)
		vReach("absurd")
		return
	}
	vCheck("M6.reducible.weights.accepted", err == nil)
	if err == nil {
		vCheck("M6.reducible.weights.spread", len(res) == 2 && res[0].Name != res[1].Name)
	}
	vReach("end")
}
