package preprocessor

// ---- C13/C15: a scenario's preprocessor mapping with hostile right-hand sides: variable paths
// and template function calls (randInt / randString with any short argument text, brackets and
// commas in odd places, arguments that name variables). Process returns values or an error and
// never panics; a plain variable path yields the variable's value.
func HarnessC13PreprocessorMapping() {
	alpha := func(name string, n int) string {
		s := vNondetString(name, n)
		for i := 0; i < n; i++ {
			c := s[i]
			vAssume(c == '(' || c == ')' || c == ',' || c == '1' || c == '2' || c == '-' || c == ' ' || c == 'k')
		}
		return s
	}
	fn := []string{"randInt", "randString", "source.k", "source.n", "request.s0.preprocessor.v", ""}[vConcretize(vNondetInt("fn", 0, 5))]
	rhs := fn + alpha("tail", int(vConcretize(vNondetInt("taillen", 0, 4))))
	vars := map[string]any{
		"source":  map[string]any{"k": "srcval", "n": 2, "list": []any{"a", "b"}},
		"request": map[string]any{"s0": map[string]any{"preprocessor": map[string]any{"v": "pv"}}},
		"k":       "3",
	}
	p := &Preprocessor{Mapping: map[string]string{"out": rhs}}
	res, err := p.Process(vars)
	if err == nil {
		_, has := res["out"]
		vCheck("M9.mapping.value.present", has)
		if rhs == "source.k" {
			vCheck("M9.variable.value", res["out"] == "srcval")
		}
		if rhs == "request.s0.preprocessor.v" {
			vCheck("M9.earlier.step.value", res["out"] == "pv")
		}
	}
	vReach("end")
}
