package decoders

import (
	"context"
	"strings"

	"github.com/yandex/pandora/components/providers/http/config"
	"github.com/yandex/pandora/components/providers/http/util"
)

// ---- C13: hostile size/header lines in raw, uripost and uri ammo never crash the decoder ----

func c13Line(name string, maxLen int64, alphabet string) string {
	if vThorough() {
		maxLen++
	}
	n := int(vConcretize(vNondetInt(name+"len", 0, maxLen)))
	s := vNondetString(name, n)
	for i := 0; i < n; i++ {
		ok := false
		for j := 0; j < len(alphabet); j++ {
			if s[i] == alphabet[j] {
				ok = true
			}
		}
		vAssume(ok)
	}
	return s
}

// The malformed line comes after one well-formed entry: that entry must be delivered
// unchanged, then Scan returns an entry or an error, never panics.
func HarnessC13RawScan() {
	line := c13Line("l", 3, "0129-+ x")
	good := "27 tag1\nGET / HTTP/1.1\r\nHost: h\r\n\r\n\n"
	file := good + line + "\nabc"
	d := newRawDecoder(strings.NewReader(file), config.Config{Passes: 1}, nil)
	a, err := d.Scan(context.Background())
	vCheck("M1.first.entry.delivered", err == nil && a != nil && a.Tag() == "tag1")
	_, _ = d.Scan(context.Background()) // implicit check: no panic
	vReach("end")
}

func HarnessC13UripostScan() {
	line := c13Line("l", 3, "019-+ /[")
	good := "1 /a tag1\nx\n"
	file := good + line + "\nabc"
	d := newURIPostDecoder(strings.NewReader(file), config.Config{Passes: 1}, nil)
	a, err := d.Scan(context.Background())
	vCheck("M1.first.entry.delivered", err == nil && a != nil && a.Tag() == "tag1")
	_, _ = d.Scan(context.Background())
	vReach("end")
}

func HarnessC13UriScan() {
	line := c13Line("l", 3, "[]: a/")
	file := "/a tag1\n" + line + "\n"
	d := newURIDecoder(strings.NewReader(file), config.Config{Passes: 1}, nil)
	a, err := d.Scan(context.Background())
	vCheck("M1.first.entry.delivered", err == nil && a != nil && a.Tag() == "tag1")
	_, _ = d.Scan(context.Background())
	vReach("end")
}

func HarnessC13DecodeHeader() {
	h := c13Line("h", 4, "[]: ab")
	k, v, err := util.DecodeHeader(h)
	if err == nil {
		vCheck("M2.header.key.nonempty", k != "")
		vCheck("M2.header.from.brackets", len(h) >= 3 && h[0] == '[' && h[len(h)-1] == ']')
	}
	_ = v
	vReach("end")
}
