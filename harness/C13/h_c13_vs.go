package vs

import (
	"encoding/csv"
	"io"
	"strings"

	"github.com/spf13/afero"
)

// ---- C13: CSV data sources of any shape (no rows, short rows, more columns than names, empty
// names, header only) become a list of rows or an error, never a panic. The CSV parser is a
// library: (*csv.Reader).Read is the harness stub below, yielding the records the harness chose.

var c13csv struct {
	records [][]string
	next    int
}

func vStub___encoding_csv_Reader__Read(r *csv.Reader) ([]string, error) {
	if c13csv.next >= len(c13csv.records) {
		return nil, io.EOF
	}
	rec := c13csv.records[c13csv.next]
	c13csv.next++
	if len(rec) != len(c13csv.records[0]) {
		// library contract (FieldsPerRecord = 0): every record has the width of the first one
		return rec, csv.ErrFieldCount
	}
	return rec, nil
}

func HarnessC13CsvSource() {
	c13csv.next = 0
	c13csv.records = nil
	nrec := int(vConcretize(vNondetInt("records", 0, 3)))
	for i := 0; i < nrec; i++ {
		w := int(vConcretize(vNondetInt("width", 1, 3))) // (a CSV line has at least one field)
		rec := make([]string, w)
		for j := range rec {
			rec[j] = []string{"y", "a b", "x"}[(i+j)%3]
		}
		c13csv.records = append(c13csv.records, rec)
	}
	var fields []string
	nf := int(vConcretize(vNondetInt("fields", 0, 2)))
	for j := 0; j < nf; j++ {
		fields = append(fields, []string{"", "id", "user name"}[vConcretize(vNondetInt("field", 0, 2))])
	}
	ignoreFirst := vNondetBool("ignoreFirstLine")
	delim := []string{"", ";"}[vConcretize(vNondetInt("delim", 0, 1))]
	var file afero.File
	if vNative() {
		// natively the real parser reads the same records from a real (in-memory) file
		sep := ","
		if delim != "" {
			sep = delim
		}
		text := ""
		for _, rec := range c13csv.records {
			text += strings.Join(rec, sep) + "\n"
		}
		fs := afero.NewMemMapFs()
		f, _ := fs.Create("data.csv")
		f.WriteString(text)
		f.Seek(0, io.SeekStart)
		file = f
	}
	rows, err := readCsv(file, ignoreFirst, delim, fields)
	sameWidth := true
	for _, rec := range c13csv.records {
		if len(rec) != len(c13csv.records[0]) {
			sameWidth = false
		}
	}
	vCheck("M10.csv.error.iff.ragged", (err == nil) == sameWidth)
	if err == nil {
		exp := nrec
		if ignoreFirst && nrec > 0 {
			exp--
		}
		vCheck("M10.csv.row.count", len(rows) == exp)
	}
	vObserve("rows", int64(len(rows)))
	vReach("end")
}
