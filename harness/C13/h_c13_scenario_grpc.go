package grpc

import (
	"time"

	"github.com/yandex/pandora/components/providers/scenario/config"
)

// gRPC twin of HarnessC13ScenarioRequests: call lists name(count, sleep) / sleep(ms).
func HarnessC13GrpcScenarioCalls() {
	n := int(vConcretize(vNondetInt("n", 1, 3)))
	var items []string
	type exp struct {
		name  string
		sleep int64
	}
	var want []exp
	bad := false
	for i := 0; i < n; i++ {
		kind := vConcretize(vNondetInt("kind", 0, 4))
		d1 := vNondetInt("d1", 0, 3)
		d2 := vNondetInt("d2", 0, 9)
		c1 := string(rune('0' + d1))
		c2 := string(rune('0' + d2))
		var it, name string
		cnt, sl := int64(1), int64(0)
		isSleep := false
		switch kind {
		case 0:
			it, name = "a", "a"
		case 1:
			it, name, isSleep, sl = "sleep("+c2+")", "sleep", true, d2
		case 2:
			it, name, cnt = "a("+c1+")", "a", d1
		case 3:
			it, name, cnt, sl = "b("+c1+", "+c2+")", "b", d1, d2
		default:
			it, name = "zz", "zz"
		}
		items = append(items, it)
		if bad {
			continue
		}
		if isSleep {
			if len(want) == 0 {
				bad = true
				continue
			}
			want[len(want)-1].sleep += sl
			continue
		}
		if name == "zz" {
			bad = true
			continue
		}
		for j := int64(0); j < cnt; j++ {
			want = append(want, exp{name, sl})
		}
	}
	reqs := map[string]config.CallConfig{"a": {Name: "a", Call: "svc.A"}, "b": {Name: "b", Call: "svc.B"}}
	res, err := convertScenarioToAmmo(config.ScenarioConfig{Name: "s", Requests: items}, reqs)
	if bad {
		vCheck("M3.malformed.list.rejected", err != nil)
		vReach("bad")
		return
	}
	vCheck("X3.wellformed.accepted", err == nil)
	if err != nil {
		return
	}
	vCheck("X3.expansion.length", len(res.Calls) == len(want))
	if len(res.Calls) != len(want) {
		return
	}
	for i := range want {
		vCheck("X3.order.kept", res.Calls[i].Name == want[i].name)
		vCheck("X3.pause.of.each.copy", res.Calls[i].Sleep == time.Duration(want[i].sleep)*time.Millisecond)
	}
	vObserve("len", int64(len(want)))
	vReach("end")
}

// gRPC twin of HarnessC13ScenarioWeights.
func HarnessC13GrpcScenarioWeights() {
	n := int(vConcretize(vNondetInt("n", 1, 3)))
	hi := int64(6)
	if vThorough() {
		hi = 12
	}
	cfg := &config.AmmoConfig{Calls: []config.CallConfig{{Name: "a", Call: "svc.A"}}}
	neg := false
	ws := make([]int64, n)
	for i := 0; i < n; i++ {
		ws[i] = vConcretize(vNondetInt("w", -hi, hi))
		if ws[i] < 0 {
			neg = true
		}
		cfg.Scenarios = append(cfg.Scenarios, config.ScenarioConfig{Name: string(rune('p' + i)), Weight: ws[i], Requests: []string{"a"}})
	}
	res, err := decodeAmmo(cfg, nil) // implicit: never panics
	if neg {
		vCheck("M5.negative.weight.rejected", err != nil)
		vReach("neg")
		return
	}
	vCheck("M5.valid.weights.accepted", err == nil)
	if err != nil {
		return
	}
	cnt := map[string]int64{}
	for _, s := range res {
		cnt[s.Name]++
	}
	for i := 0; i < n; i++ {
		w := ws[i]
		if w == 0 || n == 1 {
			w = 1
		}
		vCheck("M5.every.scenario.present", cnt[string(rune('p'+i))] >= 1)
		for j := 0; j < n; j++ {
			wj := ws[j]
			if wj == 0 || n == 1 {
				wj = 1
			}
			vCheck("M5.proportional", cnt[string(rune('p'+i))]*wj == cnt[string(rune('p'+j))]*w)
		}
	}
	vObserve("len", int64(len(res)))
	vReach("end")
}
