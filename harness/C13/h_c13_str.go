package str

// ParseStringFunc / RandStringRunes on hostile input never panic.
func HarnessC13ParseStringFunc() {
	n := int(vConcretize(vNondetInt("len", 0, 5)))
	s := vNondetString("s", n)
	for i := 0; i < n; i++ {
		vAssume(s[i] == 'a' || s[i] == '(' || s[i] == ')' || s[i] == ',' || s[i] == ' ' || s[i] == '1')
	}
	name, args, err := ParseStringFunc(s)
	if err == nil {
		opens := 0
		for i := 0; i < n; i++ {
			if s[i] == '(' {
				opens++
			}
		}
		if opens == 0 {
			vCheck("M4.no.brackets.name.is.input", name == s && args == nil)
		}
	}
	vReach("end")
}

func HarnessC13RandStringRunes() {
	n := vNondetInt("n", -3, 3)
	out := RandStringRunes(n, "ab")
	if n >= 0 {
		vCheck("M5.length", int64(len(out)) == n)
	}
	vReach("end")
}

// ---- C19/C13: a length taken from a response (`randString .request.s1.postprocessor.n` with the
// target answering an absurd number). The call that cannot allocate panics - text/template recovers
// a panicking function and reports the step as failed -, and the generator goes on: the next
// randString, of this or any other instance, returns its string (a process-wide lock that stays
// taken would block every later call: a deadlock here).
func HarnessC19RandStringAfterAbsurdLength() {
	huge := []int64{1 << 62, 1<<63 - 1, 1 << 61}[vConcretize(vNondetInt("huge", 0, 2))]
	panicked := false
	func() {
		defer func() {
			if recover() != nil {
				panicked = true
			}
		}()
		_ = RandStringRunes(huge, "ab")
	}()
	vCheck("R7.absurd.length.not.served", panicked)
	n := vNondetInt("n", 0, 2)
	out := RandStringRunes(n, "ab")
	vCheck("R7.next.call.returns.its.string", int64(len(out)) == n)
	vReach("end")
}
