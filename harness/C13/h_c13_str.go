package str

// ParseStringFunc / RandStringRunes on hostile input never panic.
func HarnessC13ParseStringFunc() {
	n := int(vConcretize(vNondetInt("len", 0, 5)))
	s := vNondetString("s", n)
	for i := 0; i < n; i++ {
		vAssume(s[i] == 'a' || s[i] == '(' || s[i] == ')' || s[i] == ',' || s[i] == ' ' || s[i] == '1')
	}
	name, args, err := ParseStringFunc(s)
	if err == nil {
		opens := 0
		for i := 0; i < n; i++ {
			if s[i] == '(' {
				opens++
			}
		}
		if opens == 0 {
			vCheck("M4.no.brackets.name.is.input", name == s && args == nil)
		}
	}
	vReach("end")
}

func HarnessC13RandStringRunes() {
	n := vNondetInt("n", -3, 3)
	out := RandStringRunes(n, "ab")
	if n >= 0 {
		vCheck("M5.length", int64(len(out)) == n)
	}
	vReach("end")
}
