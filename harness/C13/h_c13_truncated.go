package decoders

import (
	"context"
	"strings"

	"github.com/yandex/pandora/components/providers/http/config"
)

// A last entry whose body is cut short (fewer bytes than its size field promises, possibly
// none at all) must be rejected with an error; the well-formed entry before it is delivered.
func c13Truncated(dec config.DecoderType) {
	size := int(vConcretize(vNondetInt("size", 1, 4)))
	have := int(vConcretize(vNondetInt("have", 0, 3)))
	vAssume(have < size)
	body := vNondetString("body", have)
	for i := 0; i < have; i++ {
		vAssume(body[i] >= 'a' && body[i] <= 'z')
	}
	var good, last string
	if dec == config.DecoderURIPost {
		good = "1 /a tag1\nx\n"
		last = string(rune('0'+size)) + " /b tag2"
	} else {
		good = "27 tag1\nGET / HTTP/1.1\r\nHost: h\r\n\r\n\n"
		last = string(rune('0'+size)) + " tag2"
	}
	file := good + last
	if have > 0 || vNondetBool("newlineAfterSizeLine") {
		file += "\n" + body
	}
	passes := uint(vConcretize(vNondetInt("passes", 0, 1)))
	d, err := NewDecoder(config.Config{Decoder: dec, Passes: passes}, strings.NewReader(file))
	vCheck("T0.decoder", err == nil)
	a, err := d.Scan(context.Background())
	vCheck("T1.first.entry.delivered", err == nil && a != nil && a.Tag() == "tag1")
	_, err = d.Scan(context.Background())
	vCheck("T2.truncated.entry.rejected", err != nil && err != ErrPassLimit && err != ErrAmmoLimit)
	vReach("end")
}

func HarnessC13UripostTruncated() { c13Truncated(config.DecoderURIPost) }
func HarnessC13RawTruncated()     { c13Truncated(config.DecoderRaw) }
