package templater

import "strconv"

// ---- C13: the randInt(from, to) template function with any bounds a scenario may carry (equal,
// reversed, zero, negative, extreme): a number inside the range or an error, never a panic.
func HarnessC13RandInt() {
	nargs := vConcretize(vNondetInt("nargs", 0, 2))
	f := vNondetInt("f", -9223372036854775808, 9223372036854775807)
	t := vNondetInt("t", -9223372036854775808, 9223372036854775807)
	var out string
	var err error
	switch nargs {
	case 0:
		out, err = RandInt()
	case 1:
		out, err = RandInt(f)
	default:
		out, err = RandInt(f, t)
	}
	if err == nil {
		n, perr := strconv.ParseInt(out, 10, 64)
		vCheck("M8.randint.is.a.number", perr == nil)
		if nargs == 2 && f < t {
			vCheck("M8.randint.in.range", n >= f && n < t)
		}
		if nargs == 2 && t < f {
			vCheck("M8.randint.in.reversed.range", n >= t && n < f)
		}
	}
	vReach("end")
}
