package provider

import (
	"github.com/yandex/pandora/components/providers/http/config"
)

// ---- C13: pool configuration values that fit the ammo file badly (a chosen_cases tag that no
// entry carries, a limit beyond the file, an empty or truncated file) with or without preload:
// the provider ends - with an error or cleanly - and never panics, spins or blocks.
func HarnessC13ProviderConfig() {
	vSpinIsViolation()
	decs := []config.DecoderType{config.DecoderURI, config.DecoderURIPost, config.DecoderRaw}
	dec := decs[vConcretize(vNondetInt("dec", 0, 2))]
	preload := vNondetBool("preload")
	limit := uint(vNondetInt("limit", 0, 3))
	passes := uint(vNondetInt("passes", 1, 2))
	var chosen []string
	for _, tg := range []string{"t2", "t3", "typo"} {
		if vNondetBool("choose_" + tg) {
			chosen = append(chosen, tg)
		}
	}
	file := ""
	switch vConcretize(vNondetInt("file", 0, 2)) {
	case 0:
		file = c08File(dec, 2)
	case 1: // empty file
	default: // the last entry is cut short
		file = c08File(dec, 2)
		file = file[:len(file)-2]
	}
	r := c08Drain(dec, file, limit, passes, preload, chosen, 100)
	vCheck("R1.provider.returns", r.done)
	vCheck("R2.bounded.delivery", len(r.tags) <= 4)
	vObserve("n", int64(len(r.tags)))
	vReach("end")
}
