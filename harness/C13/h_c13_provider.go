package provider

import (
	"context"
	"strings"
	"sync"

	"github.com/yandex/pandora/components/providers/http/config"
	"github.com/yandex/pandora/components/providers/http/decoders"
	"github.com/yandex/pandora/core"
	"go.uber.org/zap"
)

// ---- C13: pool configuration values that fit the ammo file badly (a chosen_cases tag that no
// entry carries, a limit beyond the file, an empty or truncated file) with or without preload:
// the provider ends - with an error or cleanly - and never panics, spins or blocks.
func HarnessC13ProviderConfig() {
	vSpinIsViolation()
	decs := []config.DecoderType{config.DecoderURI, config.DecoderURIPost, config.DecoderRaw}
	dec := decs[vConcretize(vNondetInt("dec", 0, 2))]
	preload := vNondetBool("preload")
	limit := uint(vNondetInt("limit", 0, 3))
	passes := uint(vNondetInt("passes", 1, 2))
	var chosen []string
	for _, tg := range []string{"t2", "t3", "typo"} {
		if vNondetBool("choose_" + tg) {
			chosen = append(chosen, tg)
		}
	}
	file := ""
	switch vConcretize(vNondetInt("file", 0, 2)) {
	case 0:
		file = c08File(dec, 2)
	case 1: // empty file
	default: // the last entry is cut short
		file = c08File(dec, 2)
		file = file[:len(file)-2]
	}
	r := c08Drain(dec, file, limit, passes, preload, chosen, 100)
	vCheck("R1.provider.returns", r.done)
	vCheck("R2.bounded.delivery", len(r.tags) <= 4)
	vObserve("n", int64(len(r.tags)))
	vReach("end")
}

// ---- C13: a raw ammo file whose size lines are fine but whose k-th request is not an HTTP request
// (garbage bytes of the announced size, or a size line announcing no bytes at all). The entry is
// consumed the way instances do (Acquire builds the request): it must be rejected - Run ends with
// an error - and never be taken for the clean end of the ammo (a run that stops early and succeeds).
func HarnessC13RawUnparsableRequest() {
	vSpinIsViolation()
	one := func(p, tag string) string {
		req := "GET " + p + " HTTP/1.1\r\nHost: h\r\n\r\n"
		return itoa(len(req)) + " " + tag + "\n" + req
	}
	badAt := int(vConcretize(vNondetInt("badAt", 0, 2)))
	kind := vConcretize(vNondetInt("kind", 0, 2))
	var parts []string
	for i := 0; i < 3; i++ {
		if i != badAt {
			parts = append(parts, one("/"+string(rune('a'+i)), "t"))
			continue
		}
		switch kind {
		case 0:
			g := "garbage" + string(rune(vNondetInt("g", 'a', 'z'))) + "\r\n\r\n" // no request line
			parts = append(parts, itoa(len(g))+" t\n"+g)
		case 1:
			parts = append(parts, "0 t\n") // no request at all
		default:
			g := "GET /x HTTP/1.1\r\nbroken header line\r\n\r\n"
			parts = append(parts, itoa(len(g))+" t\n"+g)
		}
	}
	file := strings.Join(parts, "\n") + "\n"
	preload := vNondetBool("preload")
	conf := config.Config{Decoder: config.DecoderRaw, Passes: 1, Preload: preload}
	d, err := decoders.NewDecoder(conf, strings.NewReader(file))
	vCheck("D0.decoder.created", err == nil)
	p := &Provider{Config: conf, Decoder: d, Sink: make(chan decoders.DecodedAmmo)}
	ctx, cancel := context.WithCancel(context.Background())
	var runErr error
	var wg sync.WaitGroup
	wg.Add(1)
	go func() {
		defer wg.Done()
		runErr = p.Run(ctx, core.ProviderDeps{Log: zap.NewNop()})
	}()
	got := 0
	for {
		a, ok := p.Acquire()
		if !ok {
			break
		}
		got++
		p.Release(a)
	}
	cancel() // (the engine cancels the provider once every instance has seen the end of ammo)
	wg.Wait()
	vCheck("M6.unparsable.request.not.delivered", got <= 2)
	vCheck("M6.unparsable.request.is.an.error", runErr != nil && runErr != context.Canceled)
	vObserve("got", int64(got))
	vReach("end")
}
