package mp

// calcIndex with every index form and a data source of any length (including empty).
func HarnessC13CalcIndex() {
	form := vConcretize(vNondetInt("form", 0, 4))
	var idx string
	switch form {
	case 0:
		idx = "next"
	case 1:
		idx = "rand"
	case 2:
		idx = "last"
	case 3:
		idx = string(rune('0' + vNondetInt("d", 0, 9)))
	default:
		idx = "-" + string(rune('0'+vNondetInt("d", 0, 9)))
	}
	length := int(vNondetInt("length", 0, 4))
	it := NewNextIterator(1)
	_ = it.Next("seg")
	i, err := calcIndex(idx, "seg", length, it)
	if err == nil {
		vCheck("M6.index.in.range", i >= 0 && i < length)
	}
	vObserve("i", int64(i))
	vReach("end")
}
