package cli

import (
	"errors"
	"os"

	"github.com/spf13/viper"
)

// ---- C13: the shape of the top-level 'pools' value of a config file. readConfig looks into it
// (to default discard_overflow) before the decoder has validated anything: whatever the file holds
// there - nothing, a scalar, a list of scalars, a map - the config is rejected with a message
// (log.Fatal = exit) or accepted, never a panic.
// viper (file reading, YAML) and config.DecodeAndValidate (mapstructure, validator) are libraries:
// harness stubs symbolically, the real ones over a temporary YAML file natively.

var c13cli struct {
	pools     any
	decodeErr bool
	set       any
}

func vStub_github_com_spf13_viper_New() *viper.Viper                                  { return &viper.Viper{} }
func vStub___github_com_spf13_viper_Viper__SetConfigName(v *viper.Viper, in string)   {}
func vStub___github_com_spf13_viper_Viper__AddConfigPath(v *viper.Viper, in string)   {}
func vStub___github_com_spf13_viper_Viper__SetConfigFile(v *viper.Viper, in string)   {}
func vStub___github_com_spf13_viper_Viper__SetConfigType(v *viper.Viper, in string)   {}
func vStub___github_com_spf13_viper_Viper__ReadInConfig(v *viper.Viper) error         { return nil }
func vStub___github_com_spf13_viper_Viper__ConfigFileUsed(v *viper.Viper) string      { return "c.yaml" }
func vStub___github_com_spf13_viper_Viper__Get(v *viper.Viper, key string) any        { return c13cli.pools }
func vStub___github_com_spf13_viper_Viper__Set(v *viper.Viper, key string, value any) { c13cli.set = value }
func vStub___github_com_spf13_viper_Viper__AllSettings(v *viper.Viper) map[string]any {
	return map[string]any{"pools": c13cli.set}
}
func vStub_github_com_yandex_pandora_core_config_DecodeAndValidate(conf any, result any) error {
	if c13cli.decodeErr {
		return errors.New("decode failed")
	}
	return nil
}

func HarnessC13CliPoolsShape() {
	shape := vConcretize(vNondetInt("shape", 0, 6))
	yaml := ""
	switch shape {
	case 0: // no 'pools' key at all
		c13cli.pools, yaml = nil, "log:\n  level: info\n"
	case 1:
		c13cli.pools, yaml = 5, "pools: 5\n"
	case 2:
		c13cli.pools, yaml = []any{1}, "pools: [1]\n"
	case 3:
		c13cli.pools, yaml = map[string]any{"id": "x"}, "pools:\n  id: x\n"
	case 4:
		c13cli.pools, yaml = []any{}, "pools: []\n"
	case 5:
		c13cli.pools, yaml = []any{map[string]any{"id": "x"}, "oops"}, "pools:\n  - id: x\n  - oops\n"
	default:
		c13cli.pools, yaml = []any{map[string]any{"id": "x"}}, "pools:\n  - id: x\n"
	}
	c13cli.decodeErr = vNondetBool("decodeFails")
	c13cli.set = nil
	name := "c.yaml"
	if vNative() {
		f, err := os.CreateTemp("", "c13cli*.yaml")
		if err != nil {
			panic(err)
		}
		_, _ = f.WriteString(yaml)
		_ = f.Close()
		name = f.Name()
		defer os.Remove(name)
	}
	exited := false
	vOnExit("M7.config.rejected.with.a.message", &exited, "Config decode failed|Config read failed|Config parsing failed")
	_ = readConfig([]string{name}) // implicit: never panics (an exit with a message is a rejection)
	if shape == 6 && !vNative() {
		// the documented default is filled in for a pool that does not set the key
		pl, ok := c13cli.set.([]any)
		vCheck("M7.discard.overflow.defaulted", ok && len(pl) == 1 && pl[0].(map[string]any)["discard_overflow"] == true)
	}
	vReach("end")
}
