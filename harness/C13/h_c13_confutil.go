package confutil

import (
	"io"
	"os"
	"strings"
)

// ${property:file#key} placeholders: any token text, with or without '#', never panics.
func HarnessC13PropertyToken() {
	n := int(vConcretize(vNondetInt("len", 0, 4)))
	s := vNondetString("s", n)
	for i := 0; i < n; i++ {
		vAssume(s[i] == '#' || s[i] == 'f' || s[i] == '=' || s[i] == '/')
	}
	_, err := propertyTokenResolver(s)
	hasHash := false
	for i := 0; i < n; i++ {
		if s[i] == '#' {
			hasHash = true
		}
	}
	if !hasHash {
		vCheck("M7.placeholder.without.key.is.error", err != nil)
	}
	vReach("end")
}

// ---- the properties file itself is hostile: any short lines (with or without '=', empty lines,
// empty keys) and any key: the resolver returns the value of the first line `key=value` or an
// error, never panics. The file system is the environment: symbolically os.Open and the file's
// Read/Close are the stubs below (content chosen by the harness); natively a real temporary file.

var c13file struct {
	content string
	off     int
}

func vStub_os_Open(name string) (*os.File, error) {
	c13file.off = 0
	return &os.File{}, nil
}
func vStub___os_File__Read(f *os.File, b []byte) (int, error) {
	if c13file.off >= len(c13file.content) {
		return 0, io.EOF
	}
	n := copy(b, c13file.content[c13file.off:])
	c13file.off += n
	return n, nil
}
func vStub___os_File__Close(f *os.File) error { return nil }

func HarnessC13PropertyFile() {
	alpha := func(name string, n int) string {
		s := vNondetString(name, n)
		for i := 0; i < n; i++ {
			vAssume(s[i] == 'k' || s[i] == '=' || s[i] == 'v')
		}
		return s
	}
	var lines []string
	nl := int(vConcretize(vNondetInt("lines", 0, 2)))
	for i := 0; i < nl; i++ {
		lines = append(lines, alpha("line", int(vConcretize(vNondetInt("linelen", 0, 3)))))
	}
	key := alpha("key", int(vConcretize(vNondetInt("keylen", 0, 2))))
	c13file.content = strings.Join(lines, "\n")
	if nl > 0 && vNondetBool("finalNewline") {
		c13file.content += "\n"
	}
	name := "props"
	if vNative() {
		f, err := os.CreateTemp("", "verifprops")
		if err != nil {
			panic(err)
		}
		f.WriteString(c13file.content)
		f.Close()
		name = f.Name()
		defer os.Remove(name)
	}
	val, err := propertyTokenResolver(name + "#" + key)
	// reference: first line containing '=' whose text before the first '=' is the key
	want, found := "", false
	for _, l := range lines {
		if i := strings.IndexByte(l, '='); i >= 0 && l[:i] == key && !found {
			want, found = l[i+1:], true
		}
	}
	if found {
		vCheck("M7.property.found", err == nil && val == want)
	} else {
		vCheck("M7.unknown.property.is.error", err != nil)
	}
	vReach("end")
}
