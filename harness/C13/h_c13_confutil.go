package confutil

// ${property:file#key} placeholders: any token text, with or without '#', never panics.
func HarnessC13PropertyToken() {
	n := int(vConcretize(vNondetInt("len", 0, 4)))
	s := vNondetString("s", n)
	for i := 0; i < n; i++ {
		vAssume(s[i] == '#' || s[i] == 'f' || s[i] == '=' || s[i] == '/')
	}
	_, err := propertyTokenResolver(s)
	hasHash := false
	for i := 0; i < n; i++ {
		if s[i] == '#' {
			hasHash = true
		}
	}
	if !hasHash {
		vCheck("M7.placeholder.without.key.is.error", err != nil)
	}
	vReach("end")
}
