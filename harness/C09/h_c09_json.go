package decoders

import (
	"context"
	"strings"

	"github.com/yandex/pandora/components/providers/http/config"
)

// C09/H2 for http/json (array and one-object-per-line): headers of the ammo entry win over
// the provider's headers option; Host comes from the entry's "host" field.
func c09PrecedenceJSON(array bool) {
	conf := config.Config{Decoder: config.DecoderJSONLine, Passes: 1, Headers: []string{"[A: conf]", "[B: conf]", "[Host: conf.host]"}}
	fileHasA := vNondetBool("fileHasA")
	fv := vNondetString("fv", int(vConcretize(vNondetInt("fvlen", 0, 1))))
	for i := 0; i < len(fv); i++ {
		vAssume(fv[i] >= 'a' && fv[i] <= 'z')
	}
	e := entity{Host: "file.host", Method: "GET", URI: "/x", Tag: "t"}
	text := `{"host": "file.host", "method": "GET", "uri": "/x", "tag": "t"`
	if fileHasA {
		e.Headers = map[string]string{"A": fv}
		text += `, "headers": {"A": "` + fv + `"}`
	}
	text += "}"
	vJSONArray(array)
	if array {
		vJSONQueue([]entity{e})
		text = "[" + text + "]"
	} else {
		vJSONQueue(e)
	}
	d, err := NewDecoder(conf, strings.NewReader(text+"\n"))
	vCheck("H2.decoder", err == nil)
	if err != nil {
		return
	}
	a, err := d.Scan(context.Background())
	vCheck("H2.scan", err == nil && a != nil)
	if err != nil || a == nil {
		return
	}
	req, err := a.BuildRequest()
	vCheck("H2.build", err == nil)
	if err != nil {
		return
	}
	if fileHasA {
		vals, present := req.Header["A"]
		vCheck("H2.file.header.has.priority", present && len(vals) == 1 && vals[0] == fv)
	} else {
		vCheck("H2.config.header.added", req.Header.Get("A") == "conf")
	}
	vCheck("H2.config.only.header.added", req.Header.Get("B") == "conf")
	vCheck("H2.host.of.entry.kept", req.Host == "file.host")
	vObserve("headers", int64(len(req.Header)))
	vReach("end")
}

func HarnessC09PrecedenceJSONArray() { c09PrecedenceJSON(true) }
func HarnessC09PrecedenceJSONLines() { c09PrecedenceJSON(false) }
