package decoders

import (
	"context"
	"net/http"
	"strings"

	"github.com/yandex/pandora/components/providers/http/config"
	"github.com/yandex/pandora/components/providers/http/util"
)

// ---- C09/H1: EnrichRequestWithHeaders adds a header only where the request lacks it ----
func HarnessC09Enrich() {
	vMapPerm()
	names := []string{"A", "B", "Host"}
	req := &http.Request{Header: http.Header{}}
	extra := http.Header{}
	var inReq, inExtra [3]bool
	for i, n := range names {
		inReq[i] = vNondetBool("req_" + n)
		inExtra[i] = vNondetBool("extra_" + n)
		if inReq[i] {
			if n == "Host" {
				req.Host = "req.host"
			} else {
				req.Header.Set(n, "req-"+n)
			}
		}
		if inExtra[i] {
			extra.Set(n, "extra-"+n)
		}
	}
	util.EnrichRequestWithHeaders(req, extra)
	for i, n := range names {
		if n == "Host" {
			switch {
			case inReq[i]:
				vCheck("H1.host.of.request.kept", req.Host == "req.host")
			case inExtra[i]:
				vCheck("H1.host.from.extra", req.Host == "extra-Host")
			default:
				vCheck("H1.host.empty", req.Host == "")
			}
			vCheck("H1.host.never.a.header", req.Header.Get("Host") == "")
			continue
		}
		switch {
		case inReq[i]:
			vCheck("H1.existing.header.unchanged", req.Header.Get(n) == "req-"+n)
		case inExtra[i]:
			vCheck("H1.missing.header.added", req.Header.Get(n) == "extra-"+n)
		default:
			vCheck("H1.nothing.invented", req.Header.Get(n) == "")
		}
	}
	vReach("end")
}

// ---- C09/H2: headers in the ammo file have priority over the provider's `headers` option ----
func c09Precedence(dec config.DecoderType) {
	conf := config.Config{Decoder: dec, Passes: 1, Headers: []string{"[A: conf]", "[B: conf]", "[Host: conf.host]"}}
	var file string
	fileHasA := vNondetBool("fileHasA")
	// the in-file value may be empty ("[A:]" blanks the header)
	fv := vNondetString("fv", int(vConcretize(vNondetInt("fvlen", 0, 1))))
	for i := 0; i < len(fv); i++ {
		vAssume(fv[i] >= 'a' && fv[i] <= 'z')
	}
	if len(fv) == 1 && vNondetBool("bracketed") {
		// a value that itself ends with a bracket (a JSON array, an IPv6 literal): only the line's own
		// delimiters are taken off
		fv = "[" + fv + "]"
	}
	switch dec {
	case config.DecoderURI:
		if fileHasA {
			file = "[A:" + fv + "]\n"
		}
		file += "/x t\n"
	case config.DecoderURIPost:
		if fileHasA {
			file = "[A:" + fv + "]\n"
		}
		file += "2 /x t\nhi\n"
	default: // raw
		req := "GET /x HTTP/1.1\r\nHost: file.host\r\n"
		if fileHasA {
			req += "A: " + fv + "\r\n"
		}
		req += "\r\n"
		file = itoa09(len(req)) + " t\n" + req
	}
	d, err := NewDecoder(conf, strings.NewReader(file))
	vCheck("H2.decoder", err == nil)
	a, err := d.Scan(context.Background())
	vCheck("H2.scan", err == nil && a != nil)
	if err != nil || a == nil {
		return
	}
	req, err := a.BuildRequest()
	vCheck("H2.build", err == nil)
	if err != nil {
		return
	}
	if fileHasA {
		vals, present := req.Header["A"]
		vCheck("H2.file.header.has.priority", present && len(vals) == 1 && vals[0] == fv)
	} else {
		vCheck("H2.config.header.added", req.Header.Get("A") == "conf")
	}
	vCheck("H2.config.only.header.added", req.Header.Get("B") == "conf")
	vObserve("headers", int64(len(req.Header)))
	if dec == config.DecoderRaw {
		vCheck("H2.host.of.file.kept", req.Host == "file.host")
	} else {
		vCheck("H2.host.from.config", req.Host == "conf.host")
	}
	vReach("end")
}

func itoa09(n int) string {
	if n == 0 {
		return "0"
	}
	s := ""
	for n > 0 {
		s = string(rune('0'+n%10)) + s
		n /= 10
	}
	return s
}

func HarnessC09PrecedenceUri()     { c09Precedence(config.DecoderURI) }
func HarnessC09PrecedenceUripost() { c09Precedence(config.DecoderURIPost) }
func HarnessC09PrecedenceRaw()     { c09Precedence(config.DecoderRaw) }
