package phttp

import (
	"context"
	"errors"
	"io"
	"net"
	"net/http"
	"net/http/httptest"
	"net/url"
	"reflect"
	"strconv"
	"strings"
	"sync"
	"time"

	"github.com/spf13/afero"
	phttp "github.com/yandex/pandora/components/guns/http"
	httpammo "github.com/yandex/pandora/components/providers/http/ammo"
	"github.com/yandex/pandora/core"
	"github.com/yandex/pandora/core/plugin"
	"go.uber.org/zap"
)

// ---- C09/H3 through the guns as pandora registers them (components/phttp/import): the "http",
// "http2" and "connect" gun constructors with a target given by name. A request whose ammo has no
// Host goes out with the host of the configured target (never the resolved address); one with a
// Host keeps it; the connection goes to the resolved address when the start-up resolution worked.
// Environment: symbolically the plugin registry (register.Gun captures the constructors), DNS
// (netutil.LookupReachable) and the transport (RoundTrip) are harness stubs; the native replay
// uses the real registry, resolves "localhost" and shoots at a local test server.

var c09r struct {
	ctors      map[string]interface{}
	resolveErr bool
	resolved   string
	hosts      []string // Host of each request the transport received
	urlHosts   []string // URL.Host (address connected to)
	mu         sync.Mutex
}

func vStub_github_com_yandex_pandora_core_register_Gun(name string, newGun interface{}, defaultConfigOptional ...interface{}) {
	if c09r.ctors == nil {
		c09r.ctors = map[string]interface{}{}
	}
	c09r.ctors[name] = newGun
}
func vStub_github_com_yandex_pandora_components_providers_http_Import(fs afero.Fs)            {}
func vStub_github_com_yandex_pandora_components_guns_http_scenario_Import(fs afero.Fs)        {}
func vStub_github_com_yandex_pandora_components_providers_scenario_import_Import(fs afero.Fs) {}
func vStub_github_com_yandex_pandora_lib_netutil_LookupReachable(addr string, timeout time.Duration) (string, error) {
	if c09r.resolveErr {
		return "", errors.New("no such host")
	}
	return c09r.resolved, nil
}
func vStub___net_http_Transport__RoundTrip(t *http.Transport, req *http.Request) (*http.Response, error) {
	c09r.hosts = append(c09r.hosts, req.Host)
	c09r.urlHosts = append(c09r.urlHosts, req.URL.Host)
	return &http.Response{StatusCode: 200, ProtoMajor: 1, ProtoMinor: 1, Header: http.Header{},
		Body: io.NopCloser(strings.NewReader("")), Request: req}, nil
}
func vStub___net_http_Transport__CloseIdleConnections(t *http.Transport) {}

type c09Aggr struct{ n int }

func (a *c09Aggr) Report(s core.Sample)                                 { a.n++ }
func (a *c09Aggr) Run(ctx context.Context, _ core.AggregatorDeps) error { return nil }

func HarnessC09RegisteredGuns() {
	c09r.hosts, c09r.urlHosts = nil, nil
	kind := []string{"http", "connect"}[vConcretize(vNondetInt("gun", 0, 1))]
	c09r.resolveErr = vNondetBool("resolveFails")
	dnsCache := vNondetBool("dnsCache")
	target := "target.example:8080"
	c09r.resolved = "10.0.0.1:8080"
	var gun core.Gun
	var stop func()
	if vNative() {
		// real registry, real resolution of "localhost", real server
		old := plugin.DefaultRegistry()
		plugin.SetDefaultRegistry(plugin.NewRegistry())
		defer plugin.SetDefaultRegistry(old)
		Import(afero.NewMemMapFs())
		kind = "http" // (the connect gun needs a proxy: symbolic side only)
		listener, err := net.Listen("tcp4", "127.0.0.1:0")
		if err != nil {
			panic(err)
		}
		srv := httptest.NewUnstartedServer(http.HandlerFunc(func(rw http.ResponseWriter, req *http.Request) {
			c09r.mu.Lock()
			c09r.hosts = append(c09r.hosts, req.Host)
			c09r.mu.Unlock()
			rw.WriteHeader(200)
		}))
		_ = srv.Listener.Close()
		srv.Listener = listener
		srv.Start()
		stop = srv.Close
		port := strconv.Itoa(listener.Addr().(*net.TCPAddr).Port)
		target = "localhost:" + port
		if c09r.resolveErr {
			// (a name that does not resolve cannot be shot at natively: only the resolving case)
			c09r.resolveErr = false
		}
		factoryType := reflect.TypeOf((*func() (core.Gun, error))(nil)).Elem()
		factory, err := plugin.NewFactory(factoryType, kind, func(conf interface{}) error {
			c := conf.(*phttp.GunConfig)
			c.Target = target
			c.Client.Dialer.DNSCache = dnsCache
			return nil
		})
		if err != nil {
			panic(err)
		}
		gun, err = factory.(func() (core.Gun, error))()
		if err != nil {
			panic(err)
		}
	} else {
		Import(nil)
		conf := phttp.DefaultHTTPGunConfig()
		if kind == "connect" {
			conf = phttp.DefaultConnectGunConfig()
		}
		conf.Target = target
		conf.Client.Dialer.DNSCache = dnsCache
		gun = c09r.ctors[kind].(func(phttp.GunConfig) func() core.Gun)(conf)()
	}
	if stop != nil {
		defer stop()
	}
	ag := &c09Aggr{}
	err := gun.Bind(ag, core.GunDeps{Ctx: context.Background(), Log: zap.NewNop()})
	vCheck("H4.bind.ok", err == nil)
	mk := func(host string) core.Ammo {
		req := &http.Request{Method: "GET", URL: &url.URL{Path: "/a"}, Header: http.Header{}, Host: host, ProtoMajor: 1, ProtoMinor: 1}
		return httpammo.NewGunAmmo(req, "t", 1)
	}
	gun.Shoot(mk(""))
	gun.Shoot(mk("from.ammo.example"))
	vCheck("H4.two.samples", ag.n == 2)
	vObserve("samples", int64(ag.n))
	c09r.mu.Lock()
	defer c09r.mu.Unlock()
	vCheck("H4.both.requests.sent", len(c09r.hosts) == 2)
	if len(c09r.hosts) != 2 {
		return
	}
	wantHost := "target.example"
	if vNative() {
		wantHost = "localhost"
	}
	if kind == "http" {
		vCheck("H4.host.defaults.to.configured.target", strings.TrimSuffix(c09r.hosts[0], ":8080") == wantHost || strings.HasPrefix(c09r.hosts[0], wantHost))
	}
	vCheck("H4.host.of.ammo.kept", c09r.hosts[1] == "from.ammo.example")
	if !vNative() {
		if dnsCache && !c09r.resolveErr {
			vCheck("H4.connects.to.resolved.address", c09r.urlHosts[0] == "10.0.0.1:8080")
		} else {
			vCheck("H4.connects.to.target", c09r.urlHosts[0] == "target.example:8080")
		}
	}
	vReach("end")
}
