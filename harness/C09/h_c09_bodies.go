package decoders

import "strings"

// ---- C09: body bytes stay those of the entry: payloads above the 1 MiB chunked-read threshold ----
// readBody is the single place where uripost and raw payloads are read. Two entries are read one
// after the other (each small or just above 1 MiB); afterwards both bodies still hold their own
// bytes (first byte symbolic; bytes 1, middle and last checked as well).
func HarnessC09BigBodies() {
	const big = 1<<20 + 1
	var sizes [2]int
	var datas [2]string
	var bodies [2][]byte
	for i := range sizes {
		if vNondetBool("big") {
			sizes[i] = big + int(vConcretize(vNondetInt("extra", 0, 1)))
		} else {
			sizes[i] = int(vConcretize(vNondetInt("small", 0, 2)))
		}
	}
	for i := range sizes {
		fill := string(rune('a' + i))
		datas[i] = vNondetString("first", 1) + strings.Repeat(fill, sizes[i]) // one byte more than the payload
		body, n, err := readBody(strings.NewReader(datas[i]), sizes[i])
		vCheck("B1.read.ok", err == nil && n == sizes[i] && len(body) == sizes[i])
		if err != nil || len(body) != sizes[i] {
			return
		}
		bodies[i] = body
	}
	for i := range sizes {
		sz := sizes[i]
		if sz == 0 {
			continue
		}
		vCheck("B2.first.byte", bodies[i][0] == datas[i][0])
		for _, k := range []int{1, sz / 2, sz - 1} {
			if k >= 1 && k < sz {
				vCheck("B2.body.byte", bodies[i][k] == byte('a'+i))
			}
		}
	}
	// a payload longer than what the file holds is an error, never a short body
	_, _, err := readBody(strings.NewReader("xy"), big)
	vCheck("B3.short.file.is.error", err != nil)
	vReach("end")
}
