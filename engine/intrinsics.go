package main

// Intrinsics: harness primitives and environment stubs. Every stub hit is recorded in the
// evidence (m.stubs).

import (
	"fmt"
	"go/types"
	"math/big"
	"strings"

	"golang.org/x/tools/go/ssa"
)

type intrinsicFn func(m *Machine, fr *frame, fn *ssa.Function, args []Value) Value

var intrinsics map[string]intrinsicFn

func strArg(v Value) string {
	s, ok := v.(Str)
	if !ok || !s.IsConc() {
		panic(pathAbort{"engine-error", "harness primitive needs a constant string"})
	}
	return s.s
}

func zeroResult(fn *ssa.Function) Value {
	res := fn.Signature.Results()
	switch res.Len() {
	case 0:
		return nil
	case 1:
		return zero(res.At(0).Type())
	}
	return zero(res)
}

// prefixIntrinsic handles whole families of functions (loggers, harness primitives).
func prefixIntrinsic(name string) intrinsicFn {
	switch {
	case strings.HasPrefix(name, "go.uber.org/zap.") || strings.HasPrefix(name, "(*go.uber.org/zap.") ||
		strings.HasPrefix(name, "(go.uber.org/zap.") || strings.HasPrefix(name, "go.uber.org/zap/zapcore.") ||
		strings.HasPrefix(name, "(*go.uber.org/zap/zapcore.") || strings.HasPrefix(name, "(go.uber.org/zap/zapcore."):
		return zapStub
	}
	if i := strings.LastIndex(name, "."); i >= 0 {
		if h, ok := harnessPrims[name[i+1:]]; ok && strings.HasPrefix(name[i+1:], "v") {
			return h
		}
	}
	return nil
}

func zapStub(m *Machine, fr *frame, fn *ssa.Function, args []Value) Value {
	n := fn.Name()
	switch n {
	case "Panic", "Panicf", "Panicw", "DPanic", "Panicln":
		if strings.Contains(fn.String(), "Logger") {
			panic(targetPanic{Iface{T: types.Typ[types.String], V: Str{s: "zap panic"}}})
		}
	case "Fatal", "Fatalf", "Fatalw", "Fatalln":
		if strings.Contains(fn.String(), "Logger") {
			msg := "zap Fatal"
			if len(args) > 1 {
				if s, ok := args[1].(Str); ok && s.IsConc() {
					msg = "zap Fatal: " + s.s
				}
			}
			panic(pathAbort{"exit", msg})
		}
	case "With", "Named", "WithOptions", "Sugar", "Desugar":
		if fn.Signature.Recv() != nil && len(args) > 0 {
			if fn.Signature.Results().Len() == 1 && types.Identical(fn.Signature.Results().At(0).Type(), fn.Signature.Recv().Type()) {
				return args[0]
			}
		}
	}
	return zeroResult(fn)
}

var harnessPrims map[string]intrinsicFn

func init() {
	harnessPrims = map[string]intrinsicFn{
		"vNondetInt": func(m *Machine, fr *frame, fn *ssa.Function, args []Value) Value {
			lo, hi := args[1].(*Term), args[2].(*Term)
			if !lo.IsConst() || !hi.IsConst() {
				m.unsupported("vNondetInt bounds must be constant")
			}
			return m.freshVar(strArg(args[0]), SInt, lo.iv, hi.iv)
		},
		"vNondetBool": func(m *Machine, fr *frame, fn *ssa.Function, args []Value) Value {
			return m.freshVar(strArg(args[0]), SBool, nil, nil)
		},
		// q/den with q in [lo,hi]: exactly representable rationals for float inputs
		"vNondetRatio": func(m *Machine, fr *frame, fn *ssa.Function, args []Value) Value {
			lo, hi, den := args[1].(*Term), args[2].(*Term), args[3].(*Term)
			q := m.freshVar(strArg(args[0]), SInt, lo.iv, hi.iv)
			return rArith("/", toReal(q), toReal(den))
		},
		"vNondetReal": func(m *Machine, fr *frame, fn *ssa.Function, args []Value) Value {
			return m.freshVar(strArg(args[0]), SReal, nil, nil)
		},
		"vNondetTime": func(m *Machine, fr *frame, fn *ssa.Function, args []Value) Value {
			return TimeV{ns: m.freshVar(strArg(args[0]), SInt, big.NewInt(1_000_000_000_000_000_000), big.NewInt(4_000_000_000_000_000_000))}
		},
		"vTimeAt": func(m *Machine, fr *frame, fn *ssa.Function, args []Value) Value {
			return TimeV{ns: args[0].(*Term)}
		},
		"vTimeNs": func(m *Machine, fr *frame, fn *ssa.Function, args []Value) Value {
			return args[0].(TimeV).ns
		},
		"vNondetString": func(m *Machine, fr *frame, fn *ssa.Function, args []Value) Value {
			n := m.concretize(args[1].(*Term), "string length")
			name := strArg(args[0])
			bs := make([]*Term, n)
			for i := range bs {
				bs[i] = m.freshVar(fmt.Sprintf("%s_%d", name, i), SInt, big.NewInt(0), big.NewInt(255))
			}
			if n == 0 {
				return Str{}
			}
			return Str{b: bs}
		},
		"vAssume": func(m *Machine, fr *frame, fn *ssa.Function, args []Value) Value {
			m.assume(args[0].(*Term), "")
			return nil
		},
		"vCheck": func(m *Machine, fr *frame, fn *ssa.Function, args []Value) Value {
			m.check(strArg(args[0]), args[1].(*Term))
			return nil
		},
		"vReach": func(m *Machine, fr *frame, fn *ssa.Function, args []Value) Value {
			if !m.inReplay() {
				m.stat("reach:"+strArg(args[0])).Reached++
			}
			return nil
		},
		"vConcretize": func(m *Machine, fr *frame, fn *ssa.Function, args []Value) Value {
			return mkInt64(m.concretize(args[0].(*Term), "vConcretize"))
		},
		"vChoose": func(m *Machine, fr *frame, fn *ssa.Function, args []Value) Value {
			n := args[0].(*Term).Int64()
			return mkInt64(int64(m.choose(int(n), "vChoose")))
		},
		"vClock": func(m *Machine, fr *frame, fn *ssa.Function, args []Value) Value {
			if m.clock == nil {
				m.now()
			}
			return m.clock
		},
		"vAdvanceClock": func(m *Machine, fr *frame, fn *ssa.Function, args []Value) Value {
			if m.clock == nil {
				m.now()
			}
			m.clock = tAdd(m.clock, args[0].(*Term))
			return nil
		},
		"vSetClock": func(m *Machine, fr *frame, fn *ssa.Function, args []Value) Value {
			m.clock = args[0].(*Term)
			return nil
		},
		"vRaceBegin": func(m *Machine, fr *frame, fn *ssa.Function, args []Value) Value {
			m.raceBegin()
			return nil
		},
		"vRaceCount": func(m *Machine, fr *frame, fn *ssa.Function, args []Value) Value {
			if m.accessLog == nil {
				return mkInt64(0)
			}
			return mkInt64(int64(len(m.accessLog.reports)))
		},
		"vRaceCheck": func(m *Machine, fr *frame, fn *ssa.Function, args []Value) Value {
			id := strArg(args[0])
			if m.accessLog != nil && len(m.accessLog.reports) > 0 {
				cs := m.stat(id)
				cs.Reached++
				cs.Violated++
				m.recordViolation(id, m.pathModel(), strings.Join(m.accessLog.reports, "; "))
			} else {
				cs := m.stat(id)
				cs.Reached++
				cs.Discharged++
			}
			return nil
		},
		"vJoin": func(m *Machine, fr *frame, fn *ssa.Function, args []Value) Value {
			self := m.cur
			allDone := func() bool {
				for _, t := range m.threads {
					if t != self && t.started && !t.done {
						return false
					}
				}
				return true
			}
			if !allDone() {
				m.park(allDone)
			}
			for _, t := range m.threads {
				if t != self {
					m.hbAcquire(self, t.vc)
				}
			}
			return nil
		},
		"vYield": func(m *Machine, fr *frame, fn *ssa.Function, args []Value) Value {
			m.visible("yield")
			return nil
		},
		"vMapPerm": func(m *Machine, fr *frame, fn *ssa.Function, args []Value) Value {
			m.ghost["mapperm"] = tTrue
			return nil
		},
		"vName": func(m *Machine, fr *frame, fn *ssa.Function, args []Value) Value {
			return nil
		},
		"vThreadsAlive": func(m *Machine, fr *frame, fn *ssa.Function, args []Value) Value {
			n := 0
			for _, t := range m.threads {
				if t != m.cur && t.started && !t.done {
					n++
				}
			}
			return mkInt64(int64(n))
		},
		"vObserve": func(m *Machine, fr *frame, fn *ssa.Function, args []Value) Value {
			m.obsNames = append(m.obsNames, strArg(args[0]))
			m.obsTerms = append(m.obsTerms, args[1].(*Term))
			return nil
		},
		"vKnown": func(m *Machine, fr *frame, fn *ssa.Function, args []Value) Value {
			id := strArg(args[0])
			for _, k := range m.eng.cfg.Known {
				if k == id {
					return tTrue
				}
			}
			return tFalse
		},
		"vNative": func(m *Machine, fr *frame, fn *ssa.Function, args []Value) Value { return tFalse },
		"vTimerLateMax": func(m *Machine, fr *frame, fn *ssa.Function, args []Value) Value {
			m.ghost["timerlate"] = args[0].(*Term)
			return nil
		},
		"vLazyTimers": func(m *Machine, fr *frame, fn *ssa.Function, args []Value) Value {
			m.ghost["lazytimers"] = tTrue
			return nil
		},
		"vSpinIsViolation": func(m *Machine, fr *frame, fn *ssa.Function, args []Value) Value {
			m.ghost["spin"] = tTrue
			return nil
		},
		"vThorough": func(m *Machine, fr *frame, fn *ssa.Function, args []Value) Value {
			return mkBool(m.eng.cfg.Thorough)
		},
		"vOnExit": func(m *Machine, fr *frame, fn *ssa.Function, args []Value) Value {
			m.exitChecks = append(m.exitChecks, exitCheck{id: strArg(args[0]), flag: args[1].(*Value), allowed: strings.Split(strArg(args[2]), "|")})
			return nil
		},
		"vSignal": func(m *Machine, fr *frame, fn *ssa.Function, args []Value) Value {
			// vSignal(k): the environment delivers the k-th signal passed to signal.Notify; k<0: none
			k := args[0].(*Term)
			if k.IsConst() && k.iv.Sign() < 0 {
				m.ghost["nosignal"] = tTrue
			} else {
				m.ghost["signal"] = k
			}
			return nil
		},
		"vFreezeClock": func(m *Machine, fr *frame, fn *ssa.Function, args []Value) Value {
			m.ghost["frozenclock"] = tTrue
			return nil
		},
		"vSteadyClock": func(m *Machine, fr *frame, fn *ssa.Function, args []Value) Value {
			m.ghost["steadyclock"] = tTrue
			return nil
		},
		"vPoisoned": func(m *Machine, fr *frame, fn *ssa.Function, args []Value) Value {
			_, ok := m.ghost["poison"]
			return mkBool(ok)
		},
	}

	intrinsics = map[string]intrinsicFn{}
	registerTime()
	registerSync()
	registerErrors()
	registerStrings()
	registerMisc()
}

// ---------- time ----------

func clampInt64(t *Term) *Term {
	lo := new(big.Int).Neg(pow2(63))
	hi := new(big.Int).Sub(pow2(63), big.NewInt(1))
	if t.within(lo, hi) {
		return t
	}
	if t.IsConst() {
		if t.iv.Cmp(lo) < 0 {
			return mkInt(lo)
		}
		if t.iv.Cmp(hi) > 0 {
			return mkInt(hi)
		}
		return t
	}
	r := tIte(tCmp("<", t, mkInt(lo)), mkInt(lo), tIte(tCmp(">", t, mkInt(hi)), mkInt(hi), t))
	return r
}

func registerTime() {
	I := intrinsics
	I["time.Now"] = func(m *Machine, fr *frame, fn *ssa.Function, args []Value) Value {
		return TimeV{ns: m.now()}
	}
	I["(time.Time).Add"] = func(m *Machine, fr *frame, fn *ssa.Function, args []Value) Value {
		return TimeV{ns: tAdd(args[0].(TimeV).ns, args[1].(*Term))}
	}
	I["(time.Time).Sub"] = func(m *Machine, fr *frame, fn *ssa.Function, args []Value) Value {
		return clampInt64(tSub(args[0].(TimeV).ns, args[1].(TimeV).ns))
	}
	I["time.Since"] = func(m *Machine, fr *frame, fn *ssa.Function, args []Value) Value {
		return clampInt64(tSub(m.now(), args[0].(TimeV).ns))
	}
	I["time.Until"] = func(m *Machine, fr *frame, fn *ssa.Function, args []Value) Value {
		return clampInt64(tSub(args[0].(TimeV).ns, m.now()))
	}
	I["(time.Time).Before"] = func(m *Machine, fr *frame, fn *ssa.Function, args []Value) Value {
		return tCmp("<", args[0].(TimeV).ns, args[1].(TimeV).ns)
	}
	I["(time.Time).After"] = func(m *Machine, fr *frame, fn *ssa.Function, args []Value) Value {
		return tCmp(">", args[0].(TimeV).ns, args[1].(TimeV).ns)
	}
	I["(time.Time).Equal"] = func(m *Machine, fr *frame, fn *ssa.Function, args []Value) Value {
		return tEq(args[0].(TimeV).ns, args[1].(TimeV).ns)
	}
	I["(time.Time).Compare"] = func(m *Machine, fr *frame, fn *ssa.Function, args []Value) Value {
		a, b := args[0].(TimeV).ns, args[1].(TimeV).ns
		return tIte(tCmp("<", a, b), mkInt64(-1), tIte(tCmp(">", a, b), mkInt64(1), mkInt64(0)))
	}
	I["(time.Time).IsZero"] = func(m *Machine, fr *frame, fn *ssa.Function, args []Value) Value {
		return tEq(args[0].(TimeV).ns, mkInt(zeroTimeNs))
	}
	I["(time.Time).UnixNano"] = func(m *Machine, fr *frame, fn *ssa.Function, args []Value) Value {
		return m.wrapInt(args[0].(TimeV).ns, 64, true)
	}
	I["(time.Time).Unix"] = func(m *Machine, fr *frame, fn *ssa.Function, args []Value) Value {
		return tDivE(args[0].(TimeV).ns, mkInt64(1_000_000_000))
	}
	I["(time.Time).UnixMilli"] = func(m *Machine, fr *frame, fn *ssa.Function, args []Value) Value {
		return tDivE(args[0].(TimeV).ns, mkInt64(1_000_000))
	}
	I["(time.Time).UnixMicro"] = func(m *Machine, fr *frame, fn *ssa.Function, args []Value) Value {
		return tDivE(args[0].(TimeV).ns, mkInt64(1_000))
	}
	I["(time.Time).Nanosecond"] = func(m *Machine, fr *frame, fn *ssa.Function, args []Value) Value {
		return tModE(args[0].(TimeV).ns, mkInt64(1_000_000_000))
	}
	I["(time.Time).UTC"] = func(m *Machine, fr *frame, fn *ssa.Function, args []Value) Value { return args[0] }
	I["(time.Time).Local"] = func(m *Machine, fr *frame, fn *ssa.Function, args []Value) Value { return args[0] }
	I["(time.Time).Round"] = func(m *Machine, fr *frame, fn *ssa.Function, args []Value) Value { return args[0] }
	I["(time.Time).Truncate"] = func(m *Machine, fr *frame, fn *ssa.Function, args []Value) Value { return args[0] }
	I["time.Unix"] = func(m *Machine, fr *frame, fn *ssa.Function, args []Value) Value {
		return TimeV{ns: tAdd(tMul(args[0].(*Term), mkInt64(1_000_000_000)), args[1].(*Term))}
	}
	I["time.Sleep"] = func(m *Machine, fr *frame, fn *ssa.Function, args []Value) Value {
		d := args[0].(*Term)
		if m.clock == nil {
			m.now()
		}
		dd := tIte(tCmp(">", d, mkInt64(0)), d, mkInt64(0))
		m.advanceClockTo(tAdd(m.clock, dd))
		m.visible("sleep")
		return nil
	}
	newTimerChan := func(m *Machine, d *Term, period *Term) *ChanV {
		ch := m.newChan(1)
		if m.clock == nil {
			m.now()
		}
		ch.timer = &timerState{deadline: tAdd(m.clock, d), active: true, period: period}
		return ch
	}
	I["time.After"] = func(m *Machine, fr *frame, fn *ssa.Function, args []Value) Value {
		return newTimerChan(m, args[0].(*Term), nil)
	}
	I["time.Tick"] = func(m *Machine, fr *frame, fn *ssa.Function, args []Value) Value {
		return newTimerChan(m, args[0].(*Term), args[0].(*Term))
	}
	mkTimerObj := func(m *Machine, fn *ssa.Function, ch *ChanV) Value {
		pt := fn.Signature.Results().At(0).Type()
		obj := new(Value)
		*obj = zero(deref(pt))
		(*obj).(structV)[0] = ch
		return obj
	}
	I["time.NewTimer"] = func(m *Machine, fr *frame, fn *ssa.Function, args []Value) Value {
		return mkTimerObj(m, fn, newTimerChan(m, args[0].(*Term), nil))
	}
	I["time.NewTicker"] = func(m *Machine, fr *frame, fn *ssa.Function, args []Value) Value {
		d := args[0].(*Term)
		if d.IsConst() && d.iv.Sign() <= 0 {
			m.rtPanic("non-positive interval for NewTicker")
		}
		return mkTimerObj(m, fn, newTimerChan(m, d, d))
	}
	timerChan := func(v Value) *ChanV {
		p := v.(*Value)
		ch, _ := (*p).(structV)[0].(*ChanV)
		return ch
	}
	I["(*time.Timer).Stop"] = func(m *Machine, fr *frame, fn *ssa.Function, args []Value) Value {
		ch := timerChan(args[0])
		if ch == nil || ch.timer == nil {
			return tFalse
		}
		was := ch.timer.active && !ch.timer.fired
		ch.timer.active = false
		return mkBool(was)
	}
	I["(*time.Timer).Reset"] = func(m *Machine, fr *frame, fn *ssa.Function, args []Value) Value {
		ch := timerChan(args[0])
		if ch == nil || ch.timer == nil {
			m.unsupported("Reset of uninitialised timer")
		}
		was := ch.timer.active && !ch.timer.fired
		if m.clock == nil {
			m.now()
		}
		// Timer channels before Go 1.23 (this module: go 1.21): a timer that was left armed and whose
		// deadline has passed has put its tick into the channel; Reset does not take it out again, so
		// the next receive returns that stale tick at once.
		if was && len(ch.buf) == 0 && ch.timer.period == nil && m.branch(tCmp("<=", ch.timer.deadline, m.clock)) {
			ch.buf = append(ch.buf, TimeV{ns: ch.timer.deadline})
			was = false
		}
		ch.timer.deadline = tAdd(m.clock, args[1].(*Term))
		ch.timer.active = true
		ch.timer.fired = false
		return mkBool(was)
	}
	I["(*time.Ticker).Stop"] = func(m *Machine, fr *frame, fn *ssa.Function, args []Value) Value {
		ch := timerChan(args[0])
		if ch != nil && ch.timer != nil {
			ch.timer.active = false
		}
		return nil
	}
	I["(*time.Ticker).Reset"] = func(m *Machine, fr *frame, fn *ssa.Function, args []Value) Value {
		ch := timerChan(args[0])
		if m.clock == nil {
			m.now()
		}
		ch.timer.deadline = tAdd(m.clock, args[1].(*Term))
		ch.timer.period = args[1].(*Term)
		ch.timer.active = true
		return nil
	}
	I["time.AfterFunc"] = func(m *Machine, fr *frame, fn *ssa.Function, args []Value) Value {
		ch := newTimerChan(m, args[0].(*Term), nil)
		f := args[1]
		t := &nativeFn{name: "afterfunc-body", f: func(m *Machine, fr *frame, a []Value) Value {
			m.chanRecv(ch, nil)
			return m.call(nil, 0, f, nil, nil)
		}}
		m.spawnNative("afterfunc", t)
		return mkTimerObj(m, fn, ch)
	}
}

func (m *Machine) spawnNative(name string, f *nativeFn) {
	parent := m.cur
	t := &Thread{id: len(m.threads), wake: make(chan struct{}, 1), exited: make(chan struct{}), completed: -1}
	t.name = fmt.Sprintf("g%d:%s", t.id, name)
	m.threads = append(m.threads, t)
	m.hbSpawn(parent, t)
	t.started = true
	go func() {
		<-t.wake
		if m.killed {
			t.done = true
			close(t.exited)
			return
		}
		m.cur = t
		m.threadBody(t, func() { f.f(m, nil, nil) })
	}()
}

// ---------- sync, atomic, context ----------

func registerSync() {
	I := intrinsics
	I["(*sync.Mutex).Lock"] = func(m *Machine, fr *frame, fn *ssa.Function, a []Value) Value {
		m.mutexLock(a[0].(*Value))
		return nil
	}
	I["(*sync.Mutex).Unlock"] = func(m *Machine, fr *frame, fn *ssa.Function, a []Value) Value {
		m.mutexUnlock(a[0].(*Value))
		return nil
	}
	I["(*sync.Mutex).TryLock"] = func(m *Machine, fr *frame, fn *ssa.Function, a []Value) Value {
		return mkBool(m.mutexTryLock(a[0].(*Value)))
	}
	I["(*sync.RWMutex).Lock"] = I["(*sync.Mutex).Lock"]
	I["(*sync.RWMutex).Unlock"] = I["(*sync.Mutex).Unlock"]
	I["(*sync.RWMutex).RLock"] = func(m *Machine, fr *frame, fn *ssa.Function, a []Value) Value {
		m.rwRLock(a[0].(*Value))
		return nil
	}
	I["(*sync.RWMutex).RUnlock"] = func(m *Machine, fr *frame, fn *ssa.Function, a []Value) Value {
		m.rwRUnlock(a[0].(*Value))
		return nil
	}
	I["(*sync.Once).Do"] = func(m *Machine, fr *frame, fn *ssa.Function, a []Value) Value {
		m.onceDo(fr, a[0].(*Value), a[1])
		return nil
	}
	I["(*sync.WaitGroup).Add"] = func(m *Machine, fr *frame, fn *ssa.Function, a []Value) Value {
		m.wgAdd(a[0].(*Value), int(m.concretize(a[1].(*Term), "wg delta")))
		return nil
	}
	I["(*sync.WaitGroup).Done"] = func(m *Machine, fr *frame, fn *ssa.Function, a []Value) Value {
		m.wgAdd(a[0].(*Value), -1)
		return nil
	}
	I["(*sync.WaitGroup).Wait"] = func(m *Machine, fr *frame, fn *ssa.Function, a []Value) Value {
		m.wgWait(a[0].(*Value))
		return nil
	}
	// sync.Pool: Put keeps the value, Get returns the most recently put value (LIFO, what a
	// single P does) or New() when the pool is empty. Dropping of pooled values by the GC and
	// other orders of reuse are outside the model.
	I["(*sync.Pool).Get"] = func(m *Machine, fr *frame, fn *ssa.Function, a []Value) Value {
		p := a[0].(*Value)
		if items := m.pools[p]; len(items) > 0 {
			it := items[len(items)-1]
			m.pools[p] = items[:len(items)-1]
			m.hbAcquire(m.cur, it.vc)
			return it.v
		}
		st := (*p).(structV)
		newFn := st[len(st)-1]
		if isNilValue(newFn) {
			return Iface{}
		}
		return m.call(fr, 0, newFn, nil, nil)
	}
	I["(*sync.Pool).Put"] = func(m *Machine, fr *frame, fn *ssa.Function, a []Value) Value {
		p := a[0].(*Value)
		if ifc, ok := a[1].(Iface); ok && ifc.T == nil {
			return nil
		}
		it := pooled{v: a[1]}
		m.hbRelease(m.cur, &it.vc)
		if m.pools == nil {
			m.pools = map[*Value][]pooled{}
		}
		m.pools[p] = append(m.pools[p], it)
		return nil
	}

	// sync/atomic functions
	for _, ty := range []string{"Int32", "Int64", "Uint32", "Uint64", "Uintptr"} {
		ty := ty
		bits := uint(64)
		if strings.HasSuffix(ty, "32") {
			bits = 32
		}
		signed := strings.HasPrefix(ty, "Int")
		I["sync/atomic.Add"+ty] = func(m *Machine, fr *frame, fn *ssa.Function, a []Value) Value {
			m.visible("atomic")
			p := a[0].(*Value)
			m.noteAtomic(p, true)
			nv := tWrap(tAdd((*p).(*Term), a[1].(*Term)), bits, signed)
			*p = nv
			return nv
		}
		I["sync/atomic.Load"+ty] = func(m *Machine, fr *frame, fn *ssa.Function, a []Value) Value {
			m.visible("atomic")
			p := a[0].(*Value)
			m.noteAtomic(p, false)
			return *p
		}
		I["sync/atomic.Store"+ty] = func(m *Machine, fr *frame, fn *ssa.Function, a []Value) Value {
			m.visible("atomic")
			p := a[0].(*Value)
			m.noteAtomic(p, true)
			*p = a[1]
			return nil
		}
		I["sync/atomic.Swap"+ty] = func(m *Machine, fr *frame, fn *ssa.Function, a []Value) Value {
			m.visible("atomic")
			p := a[0].(*Value)
			m.noteAtomic(p, true)
			old := *p
			*p = a[1]
			return old
		}
		I["sync/atomic.CompareAndSwap"+ty] = func(m *Machine, fr *frame, fn *ssa.Function, a []Value) Value {
			m.visible("atomic")
			p := a[0].(*Value)
			m.noteAtomic(p, true)
			if m.branch(tEq((*p).(*Term), a[1].(*Term))) {
				*p = a[2]
				return tTrue
			}
			return tFalse
		}
		I["sync/atomic.And"+ty] = func(m *Machine, fr *frame, fn *ssa.Function, a []Value) Value {
			m.unsupported("atomic.And")
			return nil
		}
	}
	I["sync/atomic.LoadPointer"] = func(m *Machine, fr *frame, fn *ssa.Function, a []Value) Value {
		m.visible("atomic")
		p := a[0].(*Value)
		m.noteAtomic(p, false)
		return *p
	}
	I["sync/atomic.StorePointer"] = func(m *Machine, fr *frame, fn *ssa.Function, a []Value) Value {
		m.visible("atomic")
		p := a[0].(*Value)
		m.noteAtomic(p, true)
		*p = a[1]
		return nil
	}
	// atomic.Value: the interface is kept in the first field of the struct
	I["(*sync/atomic.Value).Load"] = func(m *Machine, fr *frame, fn *ssa.Function, a []Value) Value {
		m.visible("atomic")
		p := a[0].(*Value)
		slot := &(*p).(structV)[0]
		m.noteAtomic(slot, false)
		return *slot
	}
	I["(*sync/atomic.Value).Store"] = func(m *Machine, fr *frame, fn *ssa.Function, a []Value) Value {
		m.visible("atomic")
		p := a[0].(*Value)
		slot := &(*p).(structV)[0]
		m.noteAtomic(slot, true)
		if isNilValue(a[1]) {
			m.rtPanic("sync/atomic: store of nil value into Value")
		}
		*slot = a[1]
		return nil
	}
	I["(*sync/atomic.Value).Swap"] = func(m *Machine, fr *frame, fn *ssa.Function, a []Value) Value {
		m.visible("atomic")
		p := a[0].(*Value)
		slot := &(*p).(structV)[0]
		m.noteAtomic(slot, true)
		old := *slot
		*slot = a[1]
		return old
	}
	// generic atomic.Pointer[T]
	I["(*sync/atomic.Pointer[T]).Load"] = func(m *Machine, fr *frame, fn *ssa.Function, a []Value) Value {
		m.visible("atomic")
		p := a[0].(*Value)
		st := (*p).(structV)
		slot := &st[len(st)-1]
		m.noteAtomic(slot, false)
		if isNilValue(*slot) {
			return (*Value)(nil)
		}
		return *slot
	}
	I["(*sync/atomic.Pointer[T]).Store"] = func(m *Machine, fr *frame, fn *ssa.Function, a []Value) Value {
		m.visible("atomic")
		p := a[0].(*Value)
		st := (*p).(structV)
		slot := &st[len(st)-1]
		m.noteAtomic(slot, true)
		*slot = a[1]
		return nil
	}

	// context
	ctxIface := func(m *Machine, c *CtxV) Value {
		return Iface{T: m.ctxType(), V: c}
	}
	I["context.Background"] = func(m *Machine, fr *frame, fn *ssa.Function, a []Value) Value {
		return ctxIface(m, m.ctxBackground())
	}
	I["context.TODO"] = I["context.Background"]
	cancelFn := func(m *Machine, c *CtxV) Value {
		return &nativeFn{name: "context.cancel", f: func(m *Machine, fr *frame, a []Value) Value {
			m.visible("cancel")
			m.ctxCancel(c, m.ctxErr("Canceled"))
			return nil
		}}
	}
	parentOf := func(m *Machine, v Value) *CtxV {
		it := v.(Iface)
		if it.T == nil {
			m.rtPanic("cannot create context from nil parent")
		}
		c, ok := it.V.(*CtxV)
		if !ok {
			m.unsupported("context derived from a non-modelled context %v", it.T)
		}
		return c
	}
	I["context.WithCancel"] = func(m *Machine, fr *frame, fn *ssa.Function, a []Value) Value {
		c := m.ctxWithCancel(parentOf(m, a[0]))
		return tuple{ctxIface(m, c), cancelFn(m, c)}
	}
	withTimer := func(m *Machine, parent *CtxV, deadline *Term) Value {
		c := m.ctxWithCancel(parent)
		c.deadline = deadline
		ch := m.newChan(1)
		ch.timer = &timerState{deadline: deadline, active: true}
		t := &nativeFn{name: "ctx-timer", f: func(m *Machine, fr *frame, a []Value) Value {
			// fires at/after the deadline, or never runs to completion if cancelled first
			m.chanRecv(ch, nil)
			m.ctxCancel(c, m.ctxErr("DeadlineExceeded"))
			return nil
		}}
		m.spawnNative("ctxtimer", t)
		return tuple{ctxIface(m, c), cancelFn(m, c)}
	}
	I["context.WithTimeout"] = func(m *Machine, fr *frame, fn *ssa.Function, a []Value) Value {
		if m.clock == nil {
			m.now()
		}
		return withTimer(m, parentOf(m, a[0]), tAdd(m.clock, a[1].(*Term)))
	}
	I["context.WithDeadline"] = func(m *Machine, fr *frame, fn *ssa.Function, a []Value) Value {
		return withTimer(m, parentOf(m, a[0]), a[1].(TimeV).ns)
	}
	I["context.WithValue"] = func(m *Machine, fr *frame, fn *ssa.Function, a []Value) Value {
		p := parentOf(m, a[0])
		c := &CtxV{parent: p, err: Iface{}}
		if k, ok := m.concKey(a[1]); ok {
			c.values = map[string]Value{k: a[2]}
		}
		p.children = append(p.children, c)
		return ctxIface(m, c)
	}
}

func (m *Machine) ctxType() types.Type {
	pkg := m.eng.prog.ImportedPackage("context")
	if pkg == nil {
		m.unsupported("context package not loaded")
	}
	return types.NewPointer(pkg.Type("cancelCtx").Type())
}

func (m *Machine) ctxErr(which string) Value {
	pkg := m.eng.prog.ImportedPackage("context")
	g := pkg.Var(which)
	return *m.globalAddr(g)
}

// modelMethod resolves interface method calls on engine-modelled objects.
func (m *Machine) modelMethod(recv Iface, meth *types.Func) Value {
	c, ok := recv.V.(*CtxV)
	if !ok {
		return nil
	}
	switch meth.Name() {
	case "Done":
		return &nativeFn{name: "ctx.Done", f: func(m *Machine, fr *frame, a []Value) Value {
			ch := c.doneChan()
			return ch // nil channel for Background
		}}
	case "Err":
		return &nativeFn{name: "ctx.Err", f: func(m *Machine, fr *frame, a []Value) Value {
			m.visible("ctx.Err")
			return c.effectiveErr()
		}}
	case "Value":
		return &nativeFn{name: "ctx.Value", f: func(m *Machine, fr *frame, a []Value) Value {
			k, ok := m.concKey(a[1])
			for x := c; x != nil && ok; x = x.parent {
				if v, found := x.values[k]; found {
					return v
				}
			}
			return Iface{}
		}}
	case "Deadline":
		return &nativeFn{name: "ctx.Deadline", f: func(m *Machine, fr *frame, a []Value) Value {
			// the earliest deadline on the way up to the root
			var d *Term
			for x := c; x != nil; x = x.parent {
				if x.deadline != nil {
					if d == nil {
						d = x.deadline
					} else {
						d = tIte(tCmp("<", x.deadline, d), x.deadline, d)
					}
				}
			}
			if d != nil {
				return tuple{TimeV{ns: d}, tTrue}
			}
			return tuple{TimeV{ns: mkInt(zeroTimeNs)}, tFalse}
		}}
	}
	return nil
}

// ---------- errors / fmt ----------

// fmtValue renders a value for the opaque fmt stubs (best effort, concrete data only).
func (m *Machine) fmtValue(v Value) string {
	switch v := v.(type) {
	case Str:
		if v.IsConc() {
			return v.s
		}
		return "<sym-string>"
	case *Term:
		if v.IsConst() {
			switch v.sort {
			case SInt:
				return v.iv.String()
			case SBool:
				return fmt.Sprint(v.bv)
			case SReal:
				f, _ := v.rv.Float64()
				return fmt.Sprint(f)
			}
		}
		return "<sym>"
	case Iface:
		if v.T == nil {
			return "<nil>"
		}
		// error / Stringer values: call Error()/String() when available
		for _, name := range []string{"Error", "String"} {
			ms := m.eng.prog.MethodSets.MethodSet(v.T)
			for i := 0; i < ms.Len(); i++ {
				if ms.At(i).Obj().Name() == name {
					if sig, ok := ms.At(i).Type().(*types.Signature); ok && sig.Params().Len() == 0 && sig.Results().Len() == 1 && isString(sig.Results().At(0).Type()) {
						f := m.eng.prog.MethodValue(ms.At(i))
						if f != nil {
							var out string
							func() {
								defer func() {
									if r := recover(); r != nil {
										if pa, ok := r.(pathAbort); ok && (pa.kind == "killed") {
											panic(r)
										}
										out = "<" + v.T.String() + ">"
									}
								}()
								r := m.call(nil, 0, f, []Value{v.V}, nil)
								out = m.fmtValue(r)
							}()
							return out
						}
					}
				}
			}
		}
		return m.fmtValue(v.V)
	case TimeV:
		return "<time>"
	case nil:
		return "<nil>"
	}
	return fmt.Sprintf("<%T>", v)
}

// fmtTerms renders one operand as bytes: symbolic strings keep their byte terms, symbolic
// integers get exact decimal digits (the strconv contract, forking on sign/width); everything else
// goes through the best-effort text of fmtValue.
func (m *Machine) fmtTerms(v Value, verb byte, plain bool) []*Term {
	conc := func(s string) []*Term {
		out := make([]*Term, len(s))
		for i := 0; i < len(s); i++ {
			out[i] = byteTerm(s[i])
		}
		return out
	}
	if it, ok := v.(Iface); ok && it.T != nil {
		// strings and integers inside interfaces (the usual ...any operand)
		switch inner := it.V.(type) {
		case Str:
			if !inner.IsConc() && m.findMethod(it, "Error") == nil && m.findMethod(it, "String") == nil {
				v = inner
			}
		case *Term:
			if !inner.IsConst() && inner.sort == SInt && m.findMethod(it, "Error") == nil && m.findMethod(it, "String") == nil {
				if b, isBasic := it.T.Underlying().(*types.Basic); isBasic && b.Info()&types.IsInteger != 0 {
					v = inner
				}
			}
		}
	}
	switch x := v.(type) {
	case Str:
		if !x.IsConc() && plain && (verb == 's' || verb == 'v') {
			out := make([]*Term, x.Len())
			for i := range out {
				out[i] = x.At(i)
			}
			return out
		}
	case *Term:
		if !x.IsConst() && x.sort == SInt && plain && (verb == 'd' || verb == 'v') {
			return m.decimalBytes(x)
		}
	}
	return conc(m.fmtValue(v))
}

func (m *Machine) sprintf(format Str, args sliceV) Str {
	if !format.IsConc() {
		return Str{s: "<sym-format>"}
	}
	var out []*Term
	ai := 0
	f := format.s
	for i := 0; i < len(f); i++ {
		if f[i] != '%' {
			out = append(out, byteTerm(f[i]))
			continue
		}
		i++
		start := i
		for i < len(f) && strings.IndexByte("+-# 0123456789.", f[i]) >= 0 {
			i++
		}
		if i >= len(f) {
			break
		}
		if f[i] == '%' {
			out = append(out, byteTerm('%'))
			continue
		}
		if ai < args.len {
			out = append(out, m.fmtTerms(*args.at(ai), f[i], i == start)...)
			ai++
		} else {
			for _, c := range []byte("%!" + string(f[i]) + "(MISSING)") {
				out = append(out, byteTerm(c))
			}
		}
	}
	return mkStrTerms(out)
}

func (m *Machine) sprint(args sliceV, sep string) Str {
	var parts []string
	for i := 0; i < args.len; i++ {
		parts = append(parts, m.fmtValue(*args.at(i)))
	}
	return Str{s: strings.Join(parts, sep)}
}

func (m *Machine) errorIface(v Value) (Iface, bool) {
	it, ok := v.(Iface)
	return it, ok && it.T != nil
}

// callMethodIfAny calls a niladic/unary method by name on the dynamic value of an interface.
func (m *Machine) findMethod(it Iface, name string) *ssa.Function {
	if it.T == nil {
		return nil
	}
	ms := m.eng.prog.MethodSets.MethodSet(it.T)
	for i := 0; i < ms.Len(); i++ {
		if ms.At(i).Obj().Name() == name {
			return m.eng.prog.MethodValue(ms.At(i))
		}
	}
	return nil
}

func (m *Machine) unwrapErr(it Iface) []Iface {
	f := m.findMethod(it, "Unwrap")
	if f == nil {
		return nil
	}
	res := f.Signature.Results()
	if res.Len() != 1 {
		return nil
	}
	r := m.call(nil, 0, f, []Value{it.V}, nil)
	switch r := r.(type) {
	case Iface:
		if r.T == nil {
			return nil
		}
		return []Iface{r}
	case sliceV:
		var out []Iface
		for i := 0; i < r.len; i++ {
			if e, ok := (*r.at(i)).(Iface); ok && e.T != nil {
				out = append(out, e)
			}
		}
		return out
	}
	return nil
}

func (m *Machine) errorsIs(err, target Iface) bool {
	if err.T == nil || target.T == nil {
		return err.T == nil && target.T == nil
	}
	if types.Identical(err.T, target.T) && types.Comparable(target.T) {
		if m.branch(m.equals(err.T, err.V, target.V)) {
			return true
		}
	}
	if f := m.findMethod(err, "Is"); f != nil && f.Signature.Params().Len() == 1 {
		r := m.call(nil, 0, f, []Value{err.V, target}, nil)
		if t, ok := r.(*Term); ok && m.branch(t) {
			return true
		}
	}
	for _, u := range m.unwrapErr(err) {
		if m.errorsIs(u, target) {
			return true
		}
	}
	return false
}

func registerErrors() {
	I := intrinsics
	I["fmt.Sprintf"] = func(m *Machine, fr *frame, fn *ssa.Function, a []Value) Value {
		return m.sprintf(a[0].(Str), a[1].(sliceV))
	}
	I["fmt.Sprint"] = func(m *Machine, fr *frame, fn *ssa.Function, a []Value) Value {
		return m.sprint(a[0].(sliceV), "")
	}
	I["fmt.Sprintln"] = func(m *Machine, fr *frame, fn *ssa.Function, a []Value) Value {
		s := m.sprint(a[0].(sliceV), " ")
		return Str{s: s.s + "\n"}
	}
	for _, n := range []string{"fmt.Printf", "fmt.Println", "fmt.Print", "log.Printf", "log.Println", "log.Print"} {
		I[n] = func(m *Machine, fr *frame, fn *ssa.Function, a []Value) Value { return zeroResult(fn) }
	}
	// Fprintf / Fprint / Fprintln: the rendered text is written with one Write call
	fwrite := func(m *Machine, fr *frame, w Value, text Str) Value {
		it, ok := w.(Iface)
		if !ok || it.T == nil {
			m.rtPanic("invalid memory address or nil pointer dereference")
		}
		wf := m.findMethod(it, "Write")
		if wf == nil {
			m.unsupported("Fprintf to a value without Write")
		}
		bs := make([]Value, text.Len())
		for i := range bs {
			bs[i] = text.At(i)
		}
		return m.call(fr, 0, wf, []Value{it.V, sliceV{a: bs, len: len(bs), cap: len(bs)}}, nil)
	}
	I["fmt.Fprintf"] = func(m *Machine, fr *frame, fn *ssa.Function, a []Value) Value {
		return fwrite(m, fr, a[0], m.sprintf(a[1].(Str), a[2].(sliceV)))
	}
	I["fmt.Fprint"] = func(m *Machine, fr *frame, fn *ssa.Function, a []Value) Value {
		return fwrite(m, fr, a[0], m.sprint(a[1].(sliceV), ""))
	}
	I["fmt.Fprintln"] = func(m *Machine, fr *frame, fn *ssa.Function, a []Value) Value {
		s := m.sprint(a[1].(sliceV), " ")
		return fwrite(m, fr, a[0], strConcat(s, Str{s: "\n"}))
	}
	// fmt.Errorf: a *fmt.wrapError when the format has %w and an error operand, else *fmt.fmtError-like errorString
	I["fmt.Errorf"] = func(m *Machine, fr *frame, fn *ssa.Function, a []Value) Value {
		format := a[0].(Str)
		args := a[1].(sliceV)
		msg := m.sprintf(format, args)
		fmtPkg := m.eng.prog.ImportedPackage("fmt")
		if format.IsConc() && strings.Contains(format.s, "%w") && fmtPkg != nil {
			// locate the operand of %w
			idx := 0
			f := format.s
			for i := 0; i < len(f); i++ {
				if f[i] == '%' && i+1 < len(f) {
					if f[i+1] == '%' {
						i++
						continue
					}
					j := i + 1
					for j < len(f) && strings.IndexByte("+-# 0123456789.", f[j]) >= 0 {
						j++
					}
					if j < len(f) && f[j] == 'w' {
						if idx < args.len {
							if e, ok := (*args.at(idx)).(Iface); ok && e.T != nil {
								wt := fmtPkg.Type("wrapError").Type()
								obj := new(Value)
								*obj = structV{msg, e}
								return Iface{T: types.NewPointer(wt), V: obj}
							}
						}
					}
					idx++
					i = j
				}
			}
		}
		errPkg := m.eng.prog.ImportedPackage("errors")
		et := errPkg.Type("errorString").Type()
		obj := new(Value)
		*obj = structV{msg}
		return Iface{T: types.NewPointer(et), V: obj}
	}
	I["errors.Is"] = func(m *Machine, fr *frame, fn *ssa.Function, a []Value) Value {
		return mkBool(m.errorsIs(a[0].(Iface), a[1].(Iface)))
	}
	I["errors.As"] = func(m *Machine, fr *frame, fn *ssa.Function, a []Value) Value {
		err := a[0].(Iface)
		tgt := a[1].(Iface)
		if tgt.T == nil {
			m.rtPanic("errors: target cannot be nil")
		}
		pt, ok := tgt.T.Underlying().(*types.Pointer)
		if !ok {
			m.rtPanic("errors: target must be a non-nil pointer")
		}
		et := pt.Elem()
		slot := tgt.V.(*Value)
		var walk func(e Iface) bool
		walk = func(e Iface) bool {
			if e.T == nil {
				return false
			}
			if it, isI := et.Underlying().(*types.Interface); isI {
				if m.implements(e, it) {
					*slot = e
					return true
				}
			} else if types.Identical(e.T, et) {
				*slot = copyVal(e.V)
				return true
			}
			if f := m.findMethod(e, "As"); f != nil && f.Signature.Params().Len() == 1 {
				r := m.call(nil, 0, f, []Value{e.V, tgt}, nil)
				if t, ok := r.(*Term); ok && m.branch(t) {
					return true
				}
			}
			for _, u := range m.unwrapErr(e) {
				if walk(u) {
					return true
				}
			}
			return false
		}
		return mkBool(walk(err))
	}
	I["errors.Unwrap"] = func(m *Machine, fr *frame, fn *ssa.Function, a []Value) Value {
		err := a[0].(Iface)
		if err.T == nil {
			return Iface{}
		}
		f := m.findMethod(err, "Unwrap")
		if f == nil || f.Signature.Results().Len() != 1 {
			return Iface{}
		}
		if _, ok := f.Signature.Results().At(0).Type().Underlying().(*types.Interface); !ok {
			return Iface{}
		}
		return m.call(nil, 0, f, []Value{err.V}, nil)
	}
	I["github.com/pkg/errors.callers"] = func(m *Machine, fr *frame, fn *ssa.Function, a []Value) Value {
		return (*Value)(nil)
	}
	I["runtime.Callers"] = func(m *Machine, fr *frame, fn *ssa.Function, a []Value) Value { return mkInt64(0) }
	I["runtime.Caller"] = func(m *Machine, fr *frame, fn *ssa.Function, a []Value) Value {
		return tuple{mkInt64(0), Str{s: "?"}, mkInt64(0), tFalse}
	}
	I["golang.org/x/xerrors.Errorf"] = I["fmt.Errorf"]
	I["github.com/facebookgo/stackerr.Wrap"] = func(m *Machine, fr *frame, fn *ssa.Function, a []Value) Value { return a[0] }
	I["github.com/facebookgo/stackerr.WrapSkip"] = func(m *Machine, fr *frame, fn *ssa.Function, a []Value) Value { return a[0] }
	I["github.com/facebookgo/stackerr.Newf"] = func(m *Machine, fr *frame, fn *ssa.Function, a []Value) Value {
		msg := m.sprintf(a[0].(Str), a[1].(sliceV))
		errPkg := m.eng.prog.ImportedPackage("errors")
		obj := new(Value)
		*obj = structV{msg}
		return Iface{T: types.NewPointer(errPkg.Type("errorString").Type()), V: obj}
	}
}

// ---------- strings / bytes kernels ----------

func bytesOf(v Value) []*Term {
	switch v := v.(type) {
	case Str:
		out := make([]*Term, v.Len())
		for i := range out {
			out[i] = v.At(i)
		}
		return out
	case sliceV:
		out := make([]*Term, v.len)
		for i := range out {
			out[i] = (*v.at(i)).(*Term)
		}
		return out
	}
	panic(pathAbort{"engine-error", fmt.Sprintf("bytesOf %T", v)})
}

func (m *Machine) indexByte(hay []*Term, c *Term) Value {
	for i, b := range hay {
		if m.branch(tEq(b, c)) {
			return mkInt64(int64(i))
		}
	}
	return mkInt64(-1)
}

func (m *Machine) indexSeq(hay, needle []*Term) Value {
	n := len(needle)
	if n == 0 {
		return mkInt64(0)
	}
	for i := 0; i+n <= len(hay); i++ {
		var cs []*Term
		for j := 0; j < n; j++ {
			cs = append(cs, tEq(hay[i+j], needle[j]))
		}
		if m.branch(tAnd(cs...)) {
			return mkInt64(int64(i))
		}
	}
	return mkInt64(-1)
}

func registerStrings() {
	I := intrinsics
	idxB := func(m *Machine, fr *frame, fn *ssa.Function, a []Value) Value {
		return m.indexByte(bytesOf(a[0]), a[1].(*Term))
	}
	I["internal/bytealg.IndexByte"] = idxB
	I["internal/bytealg.IndexByteString"] = idxB
	lastIdxB := func(m *Machine, fr *frame, fn *ssa.Function, a []Value) Value {
		hay := bytesOf(a[0])
		for i := len(hay) - 1; i >= 0; i-- {
			if m.branch(tEq(hay[i], a[1].(*Term))) {
				return mkInt64(int64(i))
			}
		}
		return mkInt64(-1)
	}
	I["internal/bytealg.LastIndexByte"] = lastIdxB
	I["internal/bytealg.LastIndexByteString"] = lastIdxB
	idx := func(m *Machine, fr *frame, fn *ssa.Function, a []Value) Value {
		return m.indexSeq(bytesOf(a[0]), bytesOf(a[1]))
	}
	I["internal/bytealg.Index"] = idx
	I["internal/bytealg.IndexString"] = idx
	I["strings.Index"] = idx
	I["bytes.Index"] = idx
	I["internal/stringslite.Index"] = idx
	I["strings.IndexByte"] = idxB
	I["bytes.IndexByte"] = idxB
	I["internal/stringslite.IndexByte"] = idxB
	cnt := func(m *Machine, fr *frame, fn *ssa.Function, a []Value) Value {
		hay := bytesOf(a[0])
		r := mkInt64(0)
		for _, b := range hay {
			r = tAdd(r, tIte(tEq(b, a[1].(*Term)), mkInt64(1), mkInt64(0)))
		}
		return r
	}
	I["internal/bytealg.Count"] = cnt
	I["internal/bytealg.CountString"] = cnt
	I["internal/bytealg.Equal"] = func(m *Machine, fr *frame, fn *ssa.Function, a []Value) Value {
		return strEq(mkStrTerms(bytesOf(a[0])), mkStrTerms(bytesOf(a[1])))
	}
	I["bytes.Equal"] = I["internal/bytealg.Equal"]
	I["internal/bytealg.Compare"] = func(m *Machine, fr *frame, fn *ssa.Function, a []Value) Value {
		x, y := mkStrTerms(bytesOf(a[0])), mkStrTerms(bytesOf(a[1]))
		lt := m.strCompare(40 /*token.LSS*/, x, y)
		eq := strEq(x, y)
		return tIte(eq, mkInt64(0), tIte(lt, mkInt64(-1), mkInt64(1)))
	}
	I["internal/bytealg.MakeNoZero"] = func(m *Machine, fr *frame, fn *ssa.Function, a []Value) Value {
		n := int(m.concretize(a[0].(*Term), "MakeNoZero"))
		arr := make([]Value, n)
		for i := range arr {
			arr[i] = byteTerm(0)
		}
		return sliceV{a: arr, len: n, cap: n}
	}
	I["internal/bytealg.Cutover"] = func(m *Machine, fr *frame, fn *ssa.Function, a []Value) Value { return mkInt64(4) }
	I["internal/abi.NoEscape"] = func(m *Machine, fr *frame, fn *ssa.Function, a []Value) Value { return a[0] }
	I["internal/abi.Escape"] = func(m *Machine, fr *frame, fn *ssa.Function, a []Value) Value { return a[0] }
	I["(*strings.Builder).copyCheck"] = func(m *Machine, fr *frame, fn *ssa.Function, a []Value) Value { return nil }
	I["(*strings.Builder).String"] = func(m *Machine, fr *frame, fn *ssa.Function, a []Value) Value {
		p := a[0].(*Value)
		st := (*p).(structV)
		buf := st[1].(sliceV)
		return mkStrTerms(bytesOf(buf))
	}
	I["(*bytes.Buffer).String"] = func(m *Machine, fr *frame, fn *ssa.Function, a []Value) Value {
		p := a[0].(*Value)
		if p == nil {
			return Str{s: "<nil>"}
		}
		st := (*p).(structV)
		buf := st[0].(sliceV)
		off := int(st[1].(*Term).Int64())
		return mkStrTerms(bytesOf(buf)[off:])
	}
	// strings.EqualFold etc. run from SSA.
	I["internal/stringslite.Clone"] = func(m *Machine, fr *frame, fn *ssa.Function, a []Value) Value { return a[0] }
	I["strconv.cloneString"] = func(m *Machine, fr *frame, fn *ssa.Function, a []Value) Value { return a[0] }
	I["strings.Clone"] = func(m *Machine, fr *frame, fn *ssa.Function, a []Value) Value { return a[0] }
	// strings.Fields: the library's ASCII fast path counts fields with table lookups and bit tricks,
	// which makes the result length a hard symbolic term. Contract used instead: the string is cut
	// at bytes that are ASCII white space (one branch per symbolic byte); bytes >= 0x80 count as
	// non-space (U+0085 / U+00A0 as separators are outside the model).
	I["strings.Fields"] = func(m *Machine, fr *frame, fn *ssa.Function, a []Value) Value {
		st := a[0].(Str)
		isSpace := func(b *Term) bool {
			if b.IsConst() {
				c := b.Int64()
				return c == ' ' || c == '\t' || c == '\n' || c == '\v' || c == '\f' || c == '\r'
			}
			return m.branch(tOr(tEq(b, mkInt64(' ')), tAnd(tCmp(">=", b, mkInt64('\t')), tCmp("<=", b, mkInt64('\r')))))
		}
		var fields []Value
		start := -1
		for i := 0; i < st.Len(); i++ {
			if isSpace(st.At(i)) {
				if start >= 0 {
					fields = append(fields, st.Slice(start, i))
					start = -1
				}
			} else if start < 0 {
				start = i
			}
		}
		if start >= 0 {
			fields = append(fields, st.Slice(start, st.Len()))
		}
		if len(fields) == 0 {
			return sliceV{nil: false, a: []Value{}, len: 0, cap: 0}
		}
		return sliceV{a: fields, len: len(fields), cap: len(fields)}
	}
	I["unique.Make"] = nil
	delete(I, "unique.Make")
}

// ---------- misc ----------

func registerMisc() {
	I := intrinsics
	I["math.Sqrt"] = func(m *Machine, fr *frame, fn *ssa.Function, a []Value) Value {
		x := toReal(a[0].(*Term))
		if x.IsSpecialFloat() {
			if x.op == "inf" && x.rv.Sign() > 0 {
				return x
			}
			return tNaN
		}
		zero := mkReal(new(big.Rat))
		if x.IsConst() {
			if x.rv.Sign() < 0 {
				return tNaN
			}
			// exact rational square root if it exists, else symbolic
			n, d := x.rv.Num(), x.rv.Denom()
			sn, sd := new(big.Int).Sqrt(n), new(big.Int).Sqrt(d)
			if new(big.Int).Mul(sn, sn).Cmp(n) == 0 && new(big.Int).Mul(sd, sd).Cmp(d) == 0 {
				return mkReal(new(big.Rat).SetFrac(sn, sd))
			}
		} else if m.branch(tCmp("<", x, zero)) {
			return tNaN
		}
		y := m.freshVar("sqrt", SReal, nil, nil)
		m.assertPC(tCmp(">=", y, zero))
		m.assertPC(tEq(rArith("*", y, y), x))
		return y
	}
	I["math.sqrt"] = I["math.Sqrt"]
	I["math.Abs"] = func(m *Machine, fr *frame, fn *ssa.Function, a []Value) Value {
		x := a[0].(*Term)
		if x.IsSpecialFloat() {
			if x.op == "inf" {
				return tInf(1)
			}
			return x
		}
		return tIte(tCmp("<", x, mkReal(new(big.Rat))), tNeg(x), x)
	}
	I["math.Floor"] = func(m *Machine, fr *frame, fn *ssa.Function, a []Value) Value {
		x := a[0].(*Term)
		if x.IsSpecialFloat() {
			return x
		}
		return toReal(tToInt(x))
	}
	I["math.IsNaN"] = func(m *Machine, fr *frame, fn *ssa.Function, a []Value) Value {
		return mkBool(a[0].(*Term).op == "nan")
	}
	I["math.IsInf"] = func(m *Machine, fr *frame, fn *ssa.Function, a []Value) Value {
		x := a[0].(*Term)
		s := a[1].(*Term)
		if x.op != "inf" {
			return tFalse
		}
		if !s.IsConst() {
			m.unsupported("IsInf with symbolic sign")
		}
		sg := s.iv.Sign()
		return mkBool(sg == 0 || sg == x.rv.Sign())
	}
	I["math.Inf"] = func(m *Machine, fr *frame, fn *ssa.Function, a []Value) Value {
		s := a[0].(*Term)
		if !s.IsConst() {
			m.unsupported("math.Inf symbolic sign")
		}
		if s.iv.Sign() >= 0 {
			return tInf(1)
		}
		return tInf(-1)
	}
	// antchfx/xpath: contract-level stubs (result type is decided by the outermost function)
	I["github.com/antchfx/xpath.Compile"] = func(m *Machine, fr *frame, fn *ssa.Function, a []Value) Value {
		pt := fn.Signature.Results().At(0).Type()
		obj := new(Value)
		*obj = zero(deref(pt))
		m.ghost[fmt.Sprintf("xpath:%p", obj)] = a[0]
		return tuple{obj, Iface{}}
	}
	I["github.com/antchfx/htmlquery.CreateXPathNavigator"] = func(m *Machine, fr *frame, fn *ssa.Function, a []Value) Value {
		return zeroResult(fn)
	}
	I["(*github.com/antchfx/xpath.Expr).Evaluate"] = func(m *Machine, fr *frame, fn *ssa.Function, a []Value) Value {
		q, _ := m.ghost[fmt.Sprintf("xpath:%p", a[0].(*Value))].(Str)
		switch {
		case strings.HasPrefix(q.s, "count(") || strings.HasPrefix(q.s, "sum(") || strings.HasPrefix(q.s, "number("):
			return Iface{T: types.Typ[types.Float64], V: mkReal(new(big.Rat))}
		case strings.HasPrefix(q.s, "string(") || strings.HasPrefix(q.s, "concat("):
			return Iface{T: types.Typ[types.String], V: Str{}}
		case strings.HasPrefix(q.s, "boolean(") || strings.HasPrefix(q.s, "not("):
			return Iface{T: types.Typ[types.Bool], V: tFalse}
		}
		pkg := m.eng.prog.ImportedPackage("github.com/antchfx/xpath")
		it := pkg.Type("NodeIterator").Type()
		obj := new(Value)
		*obj = zero(it)
		return Iface{T: types.NewPointer(it), V: obj}
	}
	I["(*github.com/antchfx/xpath.NodeIterator).MoveNext"] = func(m *Machine, fr *frame, fn *ssa.Function, a []Value) Value { return tFalse }
	I["runtime.Gosched"] = func(m *Machine, fr *frame, fn *ssa.Function, a []Value) Value {
		m.visible("gosched")
		return nil
	}
	I["runtime.KeepAlive"] = func(m *Machine, fr *frame, fn *ssa.Function, a []Value) Value { return nil }
	I["runtime.SetFinalizer"] = func(m *Machine, fr *frame, fn *ssa.Function, a []Value) Value { return nil }
	I["runtime.GOMAXPROCS"] = func(m *Machine, fr *frame, fn *ssa.Function, a []Value) Value { return mkInt64(16) }
	I["runtime.NumCPU"] = func(m *Machine, fr *frame, fn *ssa.Function, a []Value) Value { return mkInt64(16) }
	// file system: outside the model, every open fails
	I["os.Open"] = func(m *Machine, fr *frame, fn *ssa.Function, a []Value) Value {
		errPkg := m.eng.prog.ImportedPackage("errors")
		obj := new(Value)
		*obj = structV{Str{s: "open: file system is outside the model"}}
		return tuple{(*Value)(nil), Iface{T: types.NewPointer(errPkg.Type("errorString").Type()), V: obj}}
	}
	// os/signal.Notify: an environment thread may deliver the first listed signal at any
	// scheduling point (or never)
	I["os/signal.Notify"] = func(m *Machine, fr *frame, fn *ssa.Function, a []Value) Value {
		ch := a[0].(*ChanV)
		sigs := a[1].(sliceV)
		if sigs.len == 0 {
			return nil
		}
		which := *sigs.at(0)
		if sel, ok := m.ghost["signal"].(*Term); ok && sel.IsConst() && int(sel.Int64()) < sigs.len {
			which = *sigs.at(int(sel.Int64()))
		}
		t := &nativeFn{name: "signal-env", f: func(m *Machine, fr *frame, _ []Value) Value {
			m.visible("signal")
			if len(ch.buf) < ch.cap || len(m.peerOffers(ch, false)) > 0 {
				m.doSend(ch, which)
			}
			return nil
		}}
		if nosig, ok := m.ghost["nosignal"].(*Term); ok && nosig.IsConst() && nosig.bv {
			return nil
		}
		m.spawnNative("signal", t)
		return nil
	}
	I["os.Exit"] = func(m *Machine, fr *frame, fn *ssa.Function, a []Value) Value {
		panic(pathAbort{"exit", "os.Exit"})
	}
	I["log.Fatal"] = func(m *Machine, fr *frame, fn *ssa.Function, a []Value) Value {
		panic(pathAbort{"exit", "log.Fatal"})
	}
	I["log.Fatalf"] = I["log.Fatal"]
	I["log.Fatalln"] = I["log.Fatal"]
	I["(*expvar.Int).Add"] = func(m *Machine, fr *frame, fn *ssa.Function, a []Value) Value {
		p := a[0].(*Value)
		if p == nil {
			m.rtPanic("nil pointer dereference (expvar.Int)")
		}
		slot := &(*p).(structV)[0]
		m.visible("atomic")
		m.noteAtomic(slot, true)
		// expvar.Int{i atomic.Int64} -> atomic.Int64{_ noCopy; _ align64; v int64}
		inner := (*slot).(structV)
		vs := &inner[len(inner)-1]
		*vs = tWrap(tAdd((*vs).(*Term), a[1].(*Term)), 64, true)
		return nil
	}
	I["(*expvar.Int).Value"] = func(m *Machine, fr *frame, fn *ssa.Function, a []Value) Value {
		p := a[0].(*Value)
		slot := &(*p).(structV)[0]
		inner := (*slot).(structV)
		return inner[len(inner)-1]
	}
	I["expvar.Publish"] = func(m *Machine, fr *frame, fn *ssa.Function, a []Value) Value { return nil }
	I["expvar.NewInt"] = func(m *Machine, fr *frame, fn *ssa.Function, a []Value) Value {
		pt := fn.Signature.Results().At(0).Type()
		obj := new(Value)
		*obj = zero(deref(pt))
		return obj
	}
}

// ---------- strconv integer formatting (stub contract: exact decimal representation) ----------

// decimalBytes returns the base-10 representation of t. For a symbolic t it forks on the sign
// and the number of digits and introduces one digit variable per position, constrained by
// sum(digit_j * 10^(d-1-j)) == |t| and no leading zero.
func (m *Machine) decimalBytes(t *Term) []*Term {
	if t.IsConst() {
		s := t.iv.String()
		out := make([]*Term, len(s))
		for i := range out {
			out[i] = byteTerm(s[i])
		}
		return out
	}
	var out []*Term
	abs := t
	if t.lo == nil || t.lo.Sign() < 0 {
		if m.branch(tCmp("<", t, mkInt64(0))) {
			out = append(out, byteTerm('-'))
			abs = tNeg(t)
			if t.lo != nil {
				// (|MinInt64| does not fit int64: the bound is set with big integers)
				c := *abs
				c.lo, c.hi = big.NewInt(1), new(big.Int).Neg(t.lo)
				abs = &c
			}
		} else if t.hi != nil {
			abs = boundTerm(t, 0, t.hi.Int64())
		}
	}
	// number of digits
	d := 1
	p := big.NewInt(10)
	for ; d < 20; d++ {
		if abs.hi != nil && abs.hi.Cmp(p) < 0 {
			break
		}
		if m.branch(tCmp("<", abs, mkInt(p))) {
			break
		}
		p = new(big.Int).Mul(p, big.NewInt(10))
	}
	digits := make([]*Term, d)
	sum := mkInt64(0)
	w := new(big.Int).Exp(big.NewInt(10), big.NewInt(int64(d-1)), nil)
	for j := 0; j < d; j++ {
		lo := int64('0')
		if j == 0 && d > 1 {
			lo = '1'
		}
		digits[j] = m.freshVar("dig", SInt, big.NewInt(lo), big.NewInt('9'))
		sum = tAdd(sum, tMul(mkInt(w), tSub(digits[j], mkInt64('0'))))
		w = new(big.Int).Div(w, big.NewInt(10))
	}
	m.assertPC(tEq(sum, abs))
	return append(out, digits...)
}

func init() {
	I := intrinsics
	appendDec := func(m *Machine, dst sliceV, t *Term, site *ssa.Function) Value {
		bs := m.decimalBytes(t)
		a := make([]Value, dst.len+len(bs), dst.len+len(bs)+8)
		copy(a, dst.elems())
		for i, b := range bs {
			a[dst.len+i] = b
		}
		if dst.len+len(bs) <= dst.cap {
			for i, b := range bs {
				dst.a[dst.off+dst.len+i] = b
			}
			dst.len += len(bs)
			return dst
		}
		full := a[:cap(a)]
		for i := len(a); i < len(full); i++ {
			full[i] = byteTerm(0)
		}
		return sliceV{a: full, len: len(a), cap: len(full)}
	}
	I["strconv.AppendInt"] = func(m *Machine, fr *frame, fn *ssa.Function, a []Value) Value {
		base := a[2].(*Term)
		if !base.IsConst() || base.Int64() != 10 {
			m.unsupported("strconv.AppendInt with base != 10")
		}
		return appendDec(m, a[0].(sliceV), a[1].(*Term), fn)
	}
	I["strconv.AppendUint"] = I["strconv.AppendInt"]
	I["strconv.FormatInt"] = func(m *Machine, fr *frame, fn *ssa.Function, a []Value) Value {
		base := a[1].(*Term)
		if !base.IsConst() || base.Int64() != 10 {
			m.unsupported("strconv.FormatInt with base != 10")
		}
		return mkStrTerms(m.decimalBytes(a[0].(*Term)))
	}
	I["strconv.FormatUint"] = I["strconv.FormatInt"]
	I["strconv.Itoa"] = func(m *Machine, fr *frame, fn *ssa.Function, a []Value) Value {
		return mkStrTerms(m.decimalBytes(a[0].(*Term)))
	}
}

// ---------- math/rand: results are fresh symbolic values in range ----------

func init() {
	I := intrinsics
	randRecv := func(m *Machine, a []Value) {
		// calls on a *rand.Rand mutate it: count as a write for the race analysis
		if p, ok := a[0].(*Value); ok && p != nil {
			m.noteAccessKey(p, true, false, "*rand.Rand state")
		}
	}
	bounded := func(name string, bits uint, hasRecv bool) intrinsicFn {
		return func(m *Machine, fr *frame, fn *ssa.Function, a []Value) Value {
			args := a
			if hasRecv {
				randRecv(m, a)
				args = a[1:]
			}
			n := args[0].(*Term)
			if m.branch(tCmp("<=", n, mkInt64(0))) {
				panic(targetPanic{Iface{T: types.Typ[types.String], V: Str{s: "invalid argument to " + name}}})
			}
			v := m.freshVar("rand", SInt, big.NewInt(0), new(big.Int).Sub(pow2(bits), big.NewInt(1)))
			m.assertPC(tCmp("<", v, n))
			if n.hi != nil {
				v = boundTerm(v, 0, new(big.Int).Sub(n.hi, big.NewInt(1)).Int64())
			}
			return v
		}
	}
	free := func(bits uint, hasRecv bool) intrinsicFn {
		return func(m *Machine, fr *frame, fn *ssa.Function, a []Value) Value {
			if hasRecv {
				randRecv(m, a)
			}
			return m.freshVar("rand", SInt, big.NewInt(0), new(big.Int).Sub(pow2(bits), big.NewInt(1)))
		}
	}
	for _, pkg := range []string{"math/rand", "math/rand/v2"} {
		I["(*"+pkg+".Rand).Intn"] = bounded("Intn", 63, true)
		I["(*"+pkg+".Rand).Int63n"] = bounded("Int63n", 63, true)
		I["(*"+pkg+".Rand).Int31n"] = bounded("Int31n", 31, true)
		I["(*"+pkg+".Rand).Int63"] = free(63, true)
		I["(*"+pkg+".Rand).Int31"] = free(31, true)
		I["(*"+pkg+".Rand).Int"] = free(63, true)
		I["(*"+pkg+".Rand).Uint32"] = free(32, true)
		I["(*"+pkg+".Rand).Uint64"] = free(64, true)
		I[pkg+".Intn"] = bounded("Intn", 63, false)
		I[pkg+".Int63n"] = bounded("Int63n", 63, false)
		I[pkg+".Int31n"] = bounded("Int31n", 31, false)
		I[pkg+".Int63"] = free(63, false)
		I[pkg+".Int31"] = free(31, false)
		I[pkg+".Int"] = free(63, false)
		I[pkg+".Uint32"] = free(32, false)
		I[pkg+".Uint64"] = free(64, false)
	}
	// seeding is irrelevant for the model
	I["(*math/rand.rngSource).Seed"] = func(m *Machine, fr *frame, fn *ssa.Function, a []Value) Value { return nil }
	I["math/rand.Seed"] = func(m *Machine, fr *frame, fn *ssa.Function, a []Value) Value { return nil }
}

// ---------- text/template (opaque rendering) and sync.Map ----------

type syncMapState struct {
	keys []string
	vals map[string]Value
	vc   []int
}

func (m *Machine) syncMapOf(p *Value) *syncMapState {
	if s, ok := m.side[p]; ok {
		return s.(*syncMapState)
	}
	s := &syncMapState{vals: map[string]Value{}}
	m.side[p] = s
	return s
}

func init() {
	I := intrinsics
	I["text/template.New"] = func(m *Machine, fr *frame, fn *ssa.Function, a []Value) Value {
		pt := fn.Signature.Results().At(0).Type()
		obj := new(Value)
		*obj = zero(deref(pt))
		return obj
	}
	I["(*text/template.Template).Funcs"] = func(m *Machine, fr *frame, fn *ssa.Function, a []Value) Value { return a[0] }
	I["(*text/template.Template).Option"] = func(m *Machine, fr *frame, fn *ssa.Function, a []Value) Value { return a[0] }
	I["(*text/template.Template).Parse"] = func(m *Machine, fr *frame, fn *ssa.Function, a []Value) Value {
		// a concrete text with an action that is never closed ("{{.x", "{{.x}") does not parse: like the
		// library, Parse then returns a nil template and an error
		if src, ok := a[1].(Str); ok && src.IsConc() {
			if i := strings.LastIndex(src.s, "{{"); i >= 0 && !strings.Contains(src.s[i:], "}}") {
				errPkg := m.eng.prog.ImportedPackage("errors")
				obj := new(Value)
				*obj = structV{Str{s: "template: unclosed action"}}
				return tuple{(*Value)(nil), Iface{T: types.NewPointer(errPkg.Type("errorString").Type()), V: obj}}
			}
		}
		// the source text is remembered: a template without actions renders as its own text
		if p, ok := a[0].(*Value); ok && p != nil {
			m.side[p] = a[1]
		}
		return tuple{a[0], Iface{}}
	}
	// Execute writes an opaque rendering ("<rendered>") to the writer
	I["(*text/template.Template).Execute"] = func(m *Machine, fr *frame, fn *ssa.Function, a []Value) Value {
		if p, ok := a[0].(*Value); !ok || p == nil {
			m.rtPanic("invalid memory address or nil pointer dereference")
		}
		w := a[1].(Iface)
		if w.T == nil {
			m.rtPanic("nil writer")
		}
		f := m.findMethod(w, "Write")
		if f == nil {
			m.unsupported("template.Execute: writer without Write")
		}
		// a template whose (concrete) text has no action renders as that text, exactly as the real
		// library does; anything else renders as an opaque text that still depends on the source
		var out Str = Str{s: "<rendered>"}
		if p, ok := a[0].(*Value); ok && p != nil {
			if src, ok := m.side[p].(Str); ok {
				if src.IsConc() && !strings.Contains(src.s, "{{") {
					out = src
				} else if !src.IsConc() && noActionPossible(src) {
					out = src
				} else if r, ok := renderFieldChains(src, a[2], m.ghost["tmplhtml"] != nil); ok {
					// only actions of the form {{.a.b.c}} over nested maps: the value found is inserted as
					// it is (text/template), HTML-escaped (html/template, text context)
					out = r
				} else {
					out = strConcat(strConcat(Str{s: "<rendered:"}, src), Str{s: ">"})
				}
			}
		}
		arr := make([]Value, out.Len())
		for i := range arr {
			arr[i] = out.At(i)
		}
		m.call(fr, 0, f, []Value{w.V, sliceV{a: arr, len: len(arr), cap: len(arr)}}, nil)
		return Iface{}
	}
	I["(*sync.Map).Load"] = func(m *Machine, fr *frame, fn *ssa.Function, a []Value) Value {
		m.visible("syncmap")
		s := m.syncMapOf(a[0].(*Value))
		k, ok := m.concKey(a[1])
		if !ok {
			m.unsupported("sync.Map with symbolic key")
		}
		m.hbAcquire(m.cur, s.vc)
		if v, found := s.vals[k]; found {
			return tuple{v, tTrue}
		}
		return tuple{Iface{}, tFalse}
	}
	I["(*sync.Map).Store"] = func(m *Machine, fr *frame, fn *ssa.Function, a []Value) Value {
		m.visible("syncmap")
		s := m.syncMapOf(a[0].(*Value))
		k, ok := m.concKey(a[1])
		if !ok {
			m.unsupported("sync.Map with symbolic key")
		}
		if _, found := s.vals[k]; !found {
			s.keys = append(s.keys, k)
		}
		s.vals[k] = a[2]
		m.hbRelease(m.cur, &s.vc)
		return nil
	}
	I["(*sync.Map).LoadOrStore"] = func(m *Machine, fr *frame, fn *ssa.Function, a []Value) Value {
		m.visible("syncmap")
		s := m.syncMapOf(a[0].(*Value))
		k, ok := m.concKey(a[1])
		if !ok {
			m.unsupported("sync.Map with symbolic key")
		}
		m.hbAcquire(m.cur, s.vc)
		if v, found := s.vals[k]; found {
			return tuple{v, tTrue}
		}
		s.keys = append(s.keys, k)
		s.vals[k] = a[2]
		m.hbRelease(m.cur, &s.vc)
		return tuple{a[2], tFalse}
	}
}

// ---------- reflect: just enough for "is the dynamic type one of ..." and Len ----------

type reflValue struct {
	v    Value
	t    types.Type
	addr *Value // where the value lives when it was reached through a pointer (settable)
}

func init() {
	I := intrinsics
	I["reflect.TypeOf"] = func(m *Machine, fr *frame, fn *ssa.Function, a []Value) Value {
		it := a[0].(Iface)
		if it.T == nil {
			return Iface{}
		}
		pkg := m.eng.prog.ImportedPackage("reflect")
		if pkg == nil {
			m.unsupported("reflect not loaded")
		}
		key := "rtype:" + it.T.String()
		obj, ok := m.ghost[key].(*Value)
		if !ok {
			obj = new(Value)
			*obj = Str{s: it.T.String()}
			m.ghost[key] = obj
		}
		return Iface{T: types.NewPointer(pkg.Type("rtype").Type()), V: obj}
	}
	I["reflect.ValueOf"] = func(m *Machine, fr *frame, fn *ssa.Function, a []Value) Value {
		it := a[0].(Iface)
		return reflValue{v: it.V, t: it.T}
	}
	reflKind := func(t types.Type) int64 {
		if t == nil {
			return 0
		}
		switch u := t.Underlying().(type) {
		case *types.Basic:
			switch u.Kind() {
			case types.Bool:
				return 1
			case types.Int:
				return 2
			case types.Int8:
				return 3
			case types.Int16:
				return 4
			case types.Int32:
				return 5
			case types.Int64:
				return 6
			case types.Uint:
				return 7
			case types.Uint8:
				return 8
			case types.Uint16:
				return 9
			case types.Uint32:
				return 10
			case types.Uint64:
				return 11
			case types.Uintptr:
				return 12
			case types.Float32:
				return 13
			case types.Float64:
				return 14
			case types.String:
				return 24
			case types.UnsafePointer:
				return 26
			}
		case *types.Array:
			return 17
		case *types.Chan:
			return 18
		case *types.Signature:
			return 19
		case *types.Interface:
			return 20
		case *types.Map:
			return 21
		case *types.Pointer:
			return 22
		case *types.Slice:
			return 23
		case *types.Struct:
			return 25
		}
		return 0
	}
	reflOf := func(m *Machine, v Value) reflValue {
		rv, ok := v.(reflValue)
		if !ok {
			m.unsupported("reflect.Value of unknown origin")
		}
		return rv
	}
	I["(reflect.Value).Kind"] = func(m *Machine, fr *frame, fn *ssa.Function, a []Value) Value {
		return mkInt64(reflKind(reflOf(m, a[0]).t))
	}
	I["(reflect.Value).IsValid"] = func(m *Machine, fr *frame, fn *ssa.Function, a []Value) Value {
		return mkBool(reflOf(m, a[0]).t != nil)
	}
	// scalar accessors: the value itself (the engine's integers are not width-tagged)
	for _, name := range []string{"Bool", "String", "Int", "Uint", "Float"} {
		name := name
		I["(reflect.Value)."+name] = func(m *Machine, fr *frame, fn *ssa.Function, a []Value) Value {
			rv := reflOf(m, a[0])
			k := reflKind(rv.t)
			ok := false
			switch name {
			case "Bool":
				ok = k == 1
			case "String":
				ok = k == 24
				if !ok {
					// reflect.Value.String on a non-string does not panic: "<T Value>"
					return Str{s: "<" + fmt.Sprint(rv.t) + " Value>"}
				}
			case "Int":
				ok = k >= 2 && k <= 6
			case "Uint":
				ok = k >= 7 && k <= 12
			case "Float":
				ok = k == 13 || k == 14
			}
			if !ok {
				m.rtPanic("reflect: call of reflect.Value." + name + " on value of another kind")
			}
			return rv.v
		}
	}
	reflKindName := func(t types.Type) string {
		if t == nil {
			return "invalid"
		}
		switch t.Underlying().(type) {
		case *types.Map:
			return "map"
		case *types.Slice:
			return "slice"
		case *types.Struct:
			return "struct"
		case *types.Signature:
			return "func"
		case *types.Chan:
			return "chan"
		case *types.Array:
			return "array"
		case *types.Basic:
			return t.Underlying().String()
		}
		return "other"
	}
	// Elem of a pointer is the (settable) pointee; of anything else that is not an interface a panic,
	// as in the library.
	I["(reflect.Value).Elem"] = func(m *Machine, fr *frame, fn *ssa.Function, a []Value) Value {
		rv := reflOf(m, a[0])
		if rv.t == nil {
			m.rtPanic("reflect: call of reflect.Value.Elem on zero Value")
		}
		pt, ok := rv.t.Underlying().(*types.Pointer)
		if !ok {
			m.rtPanic("reflect: call of reflect.Value.Elem on " + reflKindName(rv.t) + " Value")
		}
		ptr, ok := rv.v.(*Value)
		if !ok || ptr == nil {
			return reflValue{}
		}
		return reflValue{v: m.load(ptr), t: pt.Elem(), addr: ptr}
	}
	reflTypeObj := func(m *Machine, t types.Type) Value {
		pkg := m.eng.prog.ImportedPackage("reflect")
		if pkg == nil {
			m.unsupported("reflect not loaded")
		}
		key := "rtype:" + t.String()
		obj, ok := m.ghost[key].(*Value)
		if !ok {
			obj = new(Value)
			*obj = Str{s: t.String()}
			m.ghost[key] = obj
		}
		m.ghost["rtypeT:"+t.String()] = t
		return Iface{T: types.NewPointer(pkg.Type("rtype").Type()), V: obj}
	}
	I["(reflect.Value).Type"] = func(m *Machine, fr *frame, fn *ssa.Function, a []Value) Value {
		rv := reflOf(m, a[0])
		if rv.t == nil {
			m.rtPanic("reflect: call of reflect.Value.Type on zero Value")
		}
		return reflTypeObj(m, rv.t)
	}
	I["reflect.Zero"] = func(m *Machine, fr *frame, fn *ssa.Function, a []Value) Value {
		it, _ := a[0].(Iface)
		obj, ok := it.V.(*Value)
		if !ok || obj == nil {
			m.rtPanic("reflect: Zero(nil)")
		}
		name, _ := (*obj).(Str)
		t, ok := m.ghost["rtypeT:"+name.s].(types.Type)
		if !ok {
			m.unsupported("reflect.Zero of a type of unknown origin")
		}
		return reflValue{v: zero(t), t: t}
	}
	I["(reflect.Value).Set"] = func(m *Machine, fr *frame, fn *ssa.Function, a []Value) Value {
		rv := reflOf(m, a[0])
		x := reflOf(m, a[1])
		if rv.addr == nil {
			m.rtPanic("reflect: reflect.Value.Set using unaddressable value")
		}
		if x.t == nil || !types.AssignableTo(x.t, rv.t) {
			m.rtPanic("reflect.Set: value is not assignable to the target's type")
		}
		*rv.addr = copyVal(x.v)
		return nil
	}
	I["(reflect.Value).Interface"] = func(m *Machine, fr *frame, fn *ssa.Function, a []Value) Value {
		rv := reflOf(m, a[0])
		if rv.t == nil {
			m.rtPanic("reflect: call of reflect.Value.Interface on zero Value")
		}
		return Iface{T: rv.t, V: rv.v}
	}
	I["(reflect.Value).Len"] = func(m *Machine, fr *frame, fn *ssa.Function, a []Value) Value {
		rv, ok := a[0].(reflValue)
		if !ok {
			m.unsupported("reflect.Value of unknown origin")
		}
		switch x := rv.v.(type) {
		case sliceV:
			return mkInt64(int64(x.len))
		case Str:
			return mkInt64(int64(x.Len()))
		case arrayV:
			return mkInt64(int64(len(x)))
		case *MapV:
			if x == nil {
				return mkInt64(0)
			}
			return mkInt64(int64(len(x.entries)))
		}
		m.rtPanic("reflect: call of reflect.Value.Len on a value without length")
		return nil
	}
}

// ---------- encoding/json decoder model ----------
// The JSON text is not parsed. A harness queues the values the decoder is to produce
// (vJSONQueue(v)); Decode stores the next queued value into its target (types must match) and
// reports io.EOF when the queue is empty; NewDecoder on a (re)sought reader refills the queue
// for the next pass (vJSONPasses). Token() answers '[' or '{' as the harness declared.

func init() {
	I := intrinsics
	harnessPrims["vJSONQueue"] = func(m *Machine, fr *frame, fn *ssa.Function, a []Value) Value {
		q, _ := m.ghost["jsonq"].(tuple)
		m.ghost["jsonq"] = append(append(tuple{}, q...), a[0])
		all, _ := m.ghost["jsonall"].(tuple)
		m.ghost["jsonall"] = append(append(tuple{}, all...), a[0])
		return nil
	}
	harnessPrims["vJSONArray"] = func(m *Machine, fr *frame, fn *ssa.Function, a []Value) Value {
		m.ghost["jsonarray"] = a[0]
		return nil
	}
	I["encoding/json.NewDecoder"] = func(m *Machine, fr *frame, fn *ssa.Function, a []Value) Value {
		pt := fn.Signature.Results().At(0).Type()
		obj := new(Value)
		*obj = zero(deref(pt))
		// a new decoder over the (re-sought) file sees the whole content again
		if all, ok := m.ghost["jsonall"].(tuple); ok {
			m.ghost["jsonq"] = append(tuple{}, all...)
		}
		return obj
	}
	I["(*encoding/json.Decoder).Decode"] = func(m *Machine, fr *frame, fn *ssa.Function, a []Value) Value {
		q, _ := m.ghost["jsonq"].(tuple)
		if len(q) == 0 {
			ioPkg := m.eng.prog.ImportedPackage("io")
			return *m.globalAddr(ioPkg.Var("EOF"))
		}
		next := q[0].(Iface)
		m.ghost["jsonq"] = q[1:]
		tgt, ok := a[1].(Iface)
		if !ok || tgt.T == nil {
			m.unsupported("json.Decode into nil")
		}
		pt, isPtr := tgt.T.Underlying().(*types.Pointer)
		if isPtr {
			if _, isIface := pt.Elem().Underlying().(*types.Interface); isIface {
				// Decode(&v) with v of interface type: the value arrives with its dynamic type
				store(tgt.V.(*Value), Iface{T: next.T, V: jsonFresh(next.V)})
				return Iface{}
			}
		}
		if !isPtr || !jsonCompatible(pt.Elem(), next.T) {
			m.unsupported("json model: queued value of type %v does not fit target %v", next.T, tgt.T)
		}
		// encoding/json semantics for a target that already holds data: keys absent from the JSON
		// object leave the struct field untouched, and an object decoded into a non-nil map adds
		// to / overwrites in that map (its other entries stay). The harness writes absent keys as
		// zero fields.
		cell := tgt.V.(*Value)
		if nv, isStruct := next.V.(structV); isStruct {
			if cur, ok := (*cell).(structV); ok && len(cur) == len(nv) {
				for i := range nv {
					if jsonAbsent(nv[i]) {
						continue
					}
					if nm, isMap := nv[i].(*MapV); isMap && nm != nil {
						if cm, ok := cur[i].(*MapV); ok && cm != nil {
							for _, e := range nm.entries {
								m.mapUpdate(cm, e.k, e.v)
							}
							continue
						}
					}
					cur[i] = jsonFresh(nv[i])
				}
				return Iface{}
			}
		}
		store(cell, jsonFresh(next.V))
		return Iface{}
	}
	I["(*encoding/json.Decoder).Token"] = func(m *Machine, fr *frame, fn *ssa.Function, a []Value) Value {
		jp := m.eng.prog.ImportedPackage("encoding/json")
		ch := int64('{')
		if t, ok := m.ghost["jsonarray"].(*Term); ok && t.IsConst() && t.bv {
			ch = '['
		}
		return tuple{Iface{T: jp.Type("Delim").Type(), V: mkInt64(ch)}, Iface{}}
	}
	I["(*encoding/json.Decoder).More"] = func(m *Machine, fr *frame, fn *ssa.Function, a []Value) Value {
		q, _ := m.ghost["jsonq"].(tuple)
		return mkBool(len(q) > 0)
	}
}

// jsonFresh: what a decoder produces never aliases the harness' queued values (maps and slices
// are rebuilt), so that code which clears or refills a decoded map does not change the "file".
func jsonFresh(v Value) Value {
	switch x := v.(type) {
	case structV:
		c := make(structV, len(x))
		for i := range x {
			c[i] = jsonFresh(x[i])
		}
		return c
	case arrayV:
		c := make(arrayV, len(x))
		for i := range x {
			c[i] = jsonFresh(x[i])
		}
		return c
	case *MapV:
		if x == nil {
			return x
		}
		c := &MapV{conc: map[string]*mapEntry{}}
		for _, e := range x.entries {
			ne := &mapEntry{k: copyVal(e.k), v: jsonFresh(e.v)}
			c.entries = append(c.entries, ne)
		}
		for k, e := range x.conc {
			for i, oe := range x.entries {
				if oe == e {
					c.conc[k] = c.entries[i]
				}
			}
		}
		return c
	case sliceV:
		if x.nil {
			return x
		}
		a := make([]Value, x.len)
		for i := 0; i < x.len; i++ {
			a[i] = jsonFresh(*x.at(i))
		}
		return sliceV{a: a, off: 0, len: x.len, cap: x.len}
	}
	return v
}

// jsonAbsent: a zero field of a queued entity stands for a key that is absent from the JSON text.
func jsonAbsent(v Value) bool {
	switch x := v.(type) {
	case nil:
		return true
	case Str:
		return x.Len() == 0
	case *Term:
		return x.IsConst() && (x.iv == nil || x.iv.Sign() == 0) && !x.bv
	case *MapV:
		return x == nil || len(x.entries) == 0
	case sliceV:
		return x.nil || x.len == 0
	case Iface:
		return x.T == nil
	}
	return isNilValue(v)
}

// ---------- jsoniter.Stream model (contract: an append-only buffer in front of a writer) ----------
// WriteVal appends one opaque JSON value of the length the harness chose (vJSONValueLen),
// without newline; Buffered is the number of bytes not yet flushed; Flush writes them to the
// underlying writer. The reflection-based encoding itself is outside the model.

type jsonStreamState struct {
	out Iface
	buf []Value
}

func (m *Machine) jsonStreamOf(p *Value) *jsonStreamState {
	if s, ok := m.side[p]; ok {
		return s.(*jsonStreamState)
	}
	s := &jsonStreamState{}
	m.side[p] = s
	return s
}

func init() {
	I := intrinsics
	harnessPrims["vJSONValueLen"] = func(m *Machine, fr *frame, fn *ssa.Function, a []Value) Value {
		m.ghost["jsonvallen"] = a[0]
		return nil
	}
	I["(github.com/json-iterator/go.Config).Froze"] = func(m *Machine, fr *frame, fn *ssa.Function, a []Value) Value {
		pkg := m.eng.prog.ImportedPackage("github.com/json-iterator/go")
		obj := new(Value)
		*obj = zero(pkg.Type("frozenConfig").Type())
		return Iface{T: types.NewPointer(pkg.Type("frozenConfig").Type()), V: obj}
	}
	I["github.com/json-iterator/go.NewStream"] = func(m *Machine, fr *frame, fn *ssa.Function, a []Value) Value {
		pt := fn.Signature.Results().At(0).Type()
		obj := new(Value)
		*obj = zero(deref(pt))
		st := m.jsonStreamOf(obj)
		st.out, _ = a[1].(Iface)
		return obj
	}
	I["(*github.com/json-iterator/go.Stream).WriteVal"] = func(m *Machine, fr *frame, fn *ssa.Function, a []Value) Value {
		st := m.jsonStreamOf(a[0].(*Value))
		n := 8
		if t, ok := m.ghost["jsonvallen"].(*Term); ok && t.IsConst() {
			n = int(t.Int64())
		}
		if n < 2 {
			n = 2
		}
		st.buf = append(st.buf, byteTerm('{'))
		for i := 0; i < n-2; i++ {
			st.buf = append(st.buf, byteTerm(' '))
		}
		st.buf = append(st.buf, byteTerm('}'))
		return nil
	}
	I["(*github.com/json-iterator/go.Stream).WriteRaw"] = func(m *Machine, fr *frame, fn *ssa.Function, a []Value) Value {
		st := m.jsonStreamOf(a[0].(*Value))
		s := a[1].(Str)
		for i := 0; i < s.Len(); i++ {
			st.buf = append(st.buf, s.At(i))
		}
		return nil
	}
	I["(*github.com/json-iterator/go.Stream).Buffered"] = func(m *Machine, fr *frame, fn *ssa.Function, a []Value) Value {
		return mkInt64(int64(len(m.jsonStreamOf(a[0].(*Value)).buf)))
	}
	I["(*github.com/json-iterator/go.Stream).Flush"] = func(m *Machine, fr *frame, fn *ssa.Function, a []Value) Value {
		st := m.jsonStreamOf(a[0].(*Value))
		if st.out.T == nil || len(st.buf) == 0 {
			st.buf = nil
			return Iface{}
		}
		f := m.findMethod(st.out, "Write")
		if f == nil {
			m.unsupported("jsoniter stream over a writer without Write")
		}
		buf := st.buf
		st.buf = nil
		r := m.call(fr, 0, f, []Value{st.out.V, sliceV{a: buf, len: len(buf), cap: len(buf)}}, nil)
		if tp, ok := r.(tuple); ok && len(tp) == 2 {
			if e, ok := tp[1].(Iface); ok {
				return e
			}
		}
		return Iface{}
	}
}

// vSetField / vGetField: access a struct field by name through a pointer, unexported fields of
// other packages included (library descriptors that a harness cannot build through the library's
// own reflection-heavy constructors get an identifying marker this way). Native twins use reflect.
func init() {
	fieldSlot := func(p Value, name string) (*Value, types.Type) {
		ifc, ok := p.(Iface)
		if !ok || ifc.T == nil {
			panic(pathAbort{"engine-error", "vSetField/vGetField need a pointer to a struct"})
		}
		pt, ok := ifc.T.Underlying().(*types.Pointer)
		if !ok {
			panic(pathAbort{"engine-error", "vSetField/vGetField need a pointer to a struct"})
		}
		st, ok := pt.Elem().Underlying().(*types.Struct)
		if !ok {
			panic(pathAbort{"engine-error", "vSetField/vGetField need a pointer to a struct"})
		}
		ptr := ifc.V.(*Value)
		for i := 0; i < st.NumFields(); i++ {
			if st.Field(i).Name() == name {
				return &(*ptr).(structV)[i], st.Field(i).Type()
			}
		}
		panic(pathAbort{"engine-error", "no field " + name})
	}
	harnessPrims["vSetField"] = func(m *Machine, fr *frame, fn *ssa.Function, a []Value) Value {
		slot, ft := fieldSlot(a[0], strArg(a[1]))
		v := a[2]
		if _, isIface := ft.Underlying().(*types.Interface); !isIface {
			if ifc, ok := v.(Iface); ok {
				v = ifc.V
			}
		}
		*slot = copyVal(v)
		return nil
	}
	harnessPrims["vGetField"] = func(m *Machine, fr *frame, fn *ssa.Function, a []Value) Value {
		slot, ft := fieldSlot(a[0], strArg(a[1]))
		if _, isIface := ft.Underlying().(*types.Interface); isIface {
			return copyVal(*slot)
		}
		return Iface{T: ft, V: copyVal(*slot)}
	}
}

// noActionPossible: no two adjacent bytes of the (partly symbolic) text can both be '{' - decided
// from constants and the tracked intervals of the symbolic bytes only (no solver call).
func noActionPossible(src Str) bool {
	brace := big.NewInt('{')
	canBe := func(t *Term) bool {
		if t.IsConst() {
			return t.iv.Cmp(brace) == 0
		}
		if t.lo != nil && t.lo.Cmp(brace) > 0 {
			return false
		}
		if t.hi != nil && t.hi.Cmp(brace) < 0 {
			return false
		}
		return true
	}
	for i := 0; i+1 < src.Len(); i++ {
		if canBe(src.At(i)) && canBe(src.At(i+1)) {
			return false
		}
	}
	return true
}

// html/template: same contract as the text/template model (text outside actions is copied as is;
// escaping concerns action results only, which are opaque here anyway).
func init() {
	I := intrinsics
	for _, n := range []string{"New"} {
		I["html/template."+n] = I["text/template."+n]
	}
	for _, n := range []string{"Funcs", "Option", "Parse"} {
		I["(*html/template.Template)."+n] = I["(*text/template.Template)."+n]
	}
	textExec := I["(*text/template.Template).Execute"]
	I["(*html/template.Template).Execute"] = func(m *Machine, fr *frame, fn *ssa.Function, a []Value) Value {
		m.ghost["tmplhtml"] = tTrue
		defer delete(m.ghost, "tmplhtml")
		return textExec(m, fr, fn, a)
	}
}

// jsonCompatible: the queued value fits the decode target: identical types, or - for harnesses that
// live in another package than the (unexported) target type - a mirror type with the identical
// underlying struct (same field names, types and tags), also as slice elements.
func jsonCompatible(target, queued types.Type) bool {
	if types.Identical(target, queued) {
		return true
	}
	if ts, ok := target.Underlying().(*types.Slice); ok {
		if qs, ok := queued.Underlying().(*types.Slice); ok {
			return jsonCompatible(ts.Elem(), qs.Elem())
		}
		return false
	}
	if _, ok := target.Underlying().(*types.Struct); ok {
		return types.IdenticalIgnoreTags(target.Underlying(), queued.Underlying())
	}
	return false
}

// renderFieldChains renders a concrete template text whose actions are all plain field chains
// ({{.a.b}}) over nested maps with concrete string keys. ok=false: something else is in there (the
// caller falls back to the opaque rendering).
func renderFieldChains(src Str, data Value, html bool) (Str, bool) {
	if !src.IsConc() {
		return Str{}, false
	}
	var out Str
	rest := src.s
	for {
		i := strings.Index(rest, "{{")
		if i < 0 {
			return strConcat(out, Str{s: rest}), true
		}
		out = strConcat(out, Str{s: rest[:i]})
		j := strings.Index(rest[i:], "}}")
		if j < 0 {
			return Str{}, false
		}
		action := strings.TrimSpace(rest[i+2 : i+j])
		rest = rest[i+j+2:]
		if !strings.HasPrefix(action, ".") || strings.ContainsAny(action, " |()\"$") {
			return Str{}, false
		}
		cur := data
		for _, name := range strings.Split(action[1:], ".") {
			if ifc, ok := cur.(Iface); ok {
				cur = ifc.V
			}
			mv, ok := cur.(*MapV)
			if !ok || mv == nil || name == "" {
				return Str{}, false
			}
			e, ok := mv.conc["s"+name]
			if !ok {
				return Str{}, false
			}
			cur = e.v
		}
		if ifc, ok := cur.(Iface); ok {
			cur = ifc.V
		}
		var val Str
		switch v := cur.(type) {
		case Str:
			val = v
		case *Term:
			if !v.IsConst() || v.sort != SInt {
				return Str{}, false
			}
			val = Str{s: v.iv.String()}
		default:
			return Str{}, false
		}
		if html {
			if !val.IsConc() {
				// symbolic bytes: fine as long as none of them can be a character the escaper rewrites
				for k := 0; k < val.Len(); k++ {
					b := val.At(k)
					for _, c := range []byte("\x00\"&'+<>") {
						cc := big.NewInt(int64(c))
						if b.IsConst() && b.iv.Cmp(cc) == 0 || !b.IsConst() && (b.lo == nil || b.lo.Cmp(cc) <= 0) && (b.hi == nil || b.hi.Cmp(cc) >= 0) {
							return Str{}, false
						}
					}
				}
			} else {
				val = Str{s: strings.NewReplacer("&", "&amp;", "'", "&#39;", "+", "&#43;", "<", "&lt;", ">", "&gt;", "\"", "&#34;", "\x00", "\uFFFD").Replace(val.s)}
			}
		}
		out = strConcat(out, val)
	}
}
