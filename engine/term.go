package main

// SMT term AST with eager constant folding and interval tracking for Int terms.

import (
	"fmt"
	"math/big"
	"strings"
)

type Sort int

const (
	SBool Sort = iota
	SInt
	SReal
)

func (s Sort) String() string {
	switch s {
	case SBool:
		return "Bool"
	case SInt:
		return "Int"
	}
	return "Real"
}

type Term struct {
	op   string // "c" const, "v" var, or SMT operator
	sort Sort
	args []*Term
	iv   *big.Int // const Int
	rv   *big.Rat // const Real
	bv   bool     // const Bool
	name string   // var name
	lo   *big.Int // interval (Int only), nil = unbounded
	hi   *big.Int
	// special float values: op=="inf" (rv sign), op=="nan"
	str      string // cached SMT text
	strLevel int
}

func (t *Term) IsConst() bool { return t.op == "c" }
func (t *Term) IsSpecialFloat() bool {
	return t.op == "inf" || t.op == "nan"
}

var (
	tTrue  = &Term{op: "c", sort: SBool, bv: true}
	tFalse = &Term{op: "c", sort: SBool, bv: false}
)

func mkBool(b bool) *Term {
	if b {
		return tTrue
	}
	return tFalse
}

func mkInt(i *big.Int) *Term {
	return &Term{op: "c", sort: SInt, iv: i, lo: i, hi: i}
}
func mkInt64(i int64) *Term   { return mkInt(big.NewInt(i)) }
func mkUint64(i uint64) *Term { return mkInt(new(big.Int).SetUint64(i)) }
func mkReal(r *big.Rat) *Term { return &Term{op: "c", sort: SReal, rv: r} }
func mkRealF(f float64) *Term {
	r := new(big.Rat)
	if r.SetFloat64(f) == nil {
		if f != f {
			return &Term{op: "nan", sort: SReal}
		}
		s := int64(1)
		if f < 0 {
			s = -1
		}
		return &Term{op: "inf", sort: SReal, rv: big.NewRat(s, 1)}
	}
	return mkReal(r)
}

func mkVar(name string, s Sort, lo, hi *big.Int) *Term {
	return &Term{op: "v", sort: s, name: name, lo: lo, hi: hi}
}

func (t *Term) Int64() int64 {
	if !t.IsConst() || t.sort != SInt {
		panic("Int64 of non-const " + t.String())
	}
	if !t.iv.IsInt64() {
		if t.iv.IsUint64() {
			return int64(t.iv.Uint64())
		}
		panic("const does not fit int64: " + t.iv.String())
	}
	return t.iv.Int64()
}

func (t *Term) String() string {
	var sb strings.Builder
	t.write(&sb, 0)
	return sb.String()
}

func smtInt(i *big.Int) string {
	if i.Sign() < 0 {
		return "(- " + new(big.Int).Neg(i).String() + ")"
	}
	return i.String()
}

func smtRat(r *big.Rat) string {
	n, d := r.Num(), r.Denom()
	var s string
	if d.Cmp(big.NewInt(1)) == 0 {
		s = new(big.Int).Abs(n).String() + ".0"
	} else {
		s = "(/ " + new(big.Int).Abs(n).String() + ".0 " + d.String() + ".0)"
	}
	if n.Sign() < 0 {
		return "(- " + s + ")"
	}
	return s
}

func (t *Term) write(sb *strings.Builder, depth int) {
	if t.str != "" {
		sb.WriteString(t.str)
		return
	}
	switch t.op {
	case "c":
		switch t.sort {
		case SBool:
			if t.bv {
				sb.WriteString("true")
			} else {
				sb.WriteString("false")
			}
		case SInt:
			sb.WriteString(smtInt(t.iv))
		case SReal:
			sb.WriteString(smtRat(t.rv))
		}
	case "v":
		sb.WriteString(t.name)
	case "inf", "nan":
		sb.WriteString("|" + t.op + "|")
	default:
		sb.WriteByte('(')
		sb.WriteString(t.op)
		for _, a := range t.args {
			sb.WriteByte(' ')
			a.write(sb, depth+1)
		}
		sb.WriteByte(')')
	}
}

// ---------- interval helpers ----------

func minB(a, b *big.Int) *big.Int {
	if a == nil || b == nil {
		return nil
	}
	if a.Cmp(b) < 0 {
		return a
	}
	return b
}
func maxB(a, b *big.Int) *big.Int {
	if a == nil || b == nil {
		return nil
	}
	if a.Cmp(b) > 0 {
		return a
	}
	return b
}
func addB(a, b *big.Int) *big.Int {
	if a == nil || b == nil {
		return nil
	}
	return new(big.Int).Add(a, b)
}
func subB(a, b *big.Int) *big.Int {
	if a == nil || b == nil {
		return nil
	}
	return new(big.Int).Sub(a, b)
}

// ---------- constructors ----------

func tNot(a *Term) *Term {
	if a.IsConst() {
		return mkBool(!a.bv)
	}
	if a.op == "not" {
		return a.args[0]
	}
	return &Term{op: "not", sort: SBool, args: []*Term{a}}
}

func tAnd(xs ...*Term) *Term {
	var out []*Term
	for _, x := range xs {
		if x.IsConst() {
			if !x.bv {
				return tFalse
			}
			continue
		}
		out = append(out, x)
	}
	switch len(out) {
	case 0:
		return tTrue
	case 1:
		return out[0]
	}
	return &Term{op: "and", sort: SBool, args: out}
}

func tOr(xs ...*Term) *Term {
	var out []*Term
	for _, x := range xs {
		if x.IsConst() {
			if x.bv {
				return tTrue
			}
			continue
		}
		out = append(out, x)
	}
	switch len(out) {
	case 0:
		return tFalse
	case 1:
		return out[0]
	}
	return &Term{op: "or", sort: SBool, args: out}
}

func tImplies(a, b *Term) *Term { return tOr(tNot(a), b) }

func tIte(c, a, b *Term) *Term {
	if c.IsConst() {
		if c.bv {
			return a
		}
		return b
	}
	if a == b {
		return a
	}
	if a.sort == SBool {
		if a.IsConst() && b.IsConst() {
			if a.bv == b.bv {
				return a
			}
			if a.bv {
				return c
			}
			return tNot(c)
		}
	}
	if a.IsConst() && b.IsConst() && a.sort == SInt && a.iv.Cmp(b.iv) == 0 {
		return a
	}
	t := &Term{op: "ite", sort: a.sort, args: []*Term{c, a, b}}
	if a.sort == SInt {
		t.lo = minB(a.lo, b.lo)
		t.hi = maxB(a.hi, b.hi)
	}
	return t
}

func sameConstInt(a, b *Term) (int, bool) {
	if a.IsConst() && b.IsConst() {
		return a.iv.Cmp(b.iv), true
	}
	return 0, false
}

func toReal(a *Term) *Term {
	if a.sort == SReal {
		return a
	}
	if a.IsConst() {
		return mkReal(new(big.Rat).SetInt(a.iv))
	}
	return &Term{op: "to_real", sort: SReal, args: []*Term{a}, lo: a.lo, hi: a.hi}
}

func tEq(a, b *Term) *Term {
	if a == b && !a.IsSpecialFloat() {
		return tTrue
	}
	if a.sort != b.sort {
		if a.sort == SBool || b.sort == SBool {
			panic("tEq sort mismatch")
		}
		a, b = toReal(a), toReal(b)
	}
	if a.IsSpecialFloat() || b.IsSpecialFloat() {
		if a.op == "nan" || b.op == "nan" {
			return tFalse
		}
		if a.op == "inf" && b.op == "inf" {
			return mkBool(a.rv.Sign() == b.rv.Sign())
		}
		return tFalse
	}
	switch a.sort {
	case SBool:
		if a.IsConst() && b.IsConst() {
			return mkBool(a.bv == b.bv)
		}
		if a.IsConst() {
			if a.bv {
				return b
			}
			return tNot(b)
		}
		if b.IsConst() {
			if b.bv {
				return a
			}
			return tNot(a)
		}
	case SInt:
		if c, ok := sameConstInt(a, b); ok {
			return mkBool(c == 0)
		}
		// disjoint intervals
		if a.hi != nil && b.lo != nil && a.hi.Cmp(b.lo) < 0 {
			return tFalse
		}
		if b.hi != nil && a.lo != nil && b.hi.Cmp(a.lo) < 0 {
			return tFalse
		}
	case SReal:
		if a.IsConst() && b.IsConst() {
			return mkBool(a.rv.Cmp(b.rv) == 0)
		}
	}
	return &Term{op: "=", sort: SBool, args: []*Term{a, b}}
}

// tCmp builds a op b for op in < <= > >=
func tCmp(op string, a, b *Term) *Term {
	if a.sort != b.sort {
		a, b = toReal(a), toReal(b)
	}
	if a.IsSpecialFloat() || b.IsSpecialFloat() {
		if a.op == "nan" || b.op == "nan" {
			return tFalse
		}
		// compare with infinities
		sa, sb := 0, 0
		if a.op == "inf" {
			sa = a.rv.Sign() * 2
		}
		if b.op == "inf" {
			sb = b.rv.Sign() * 2
		}
		if sa == sb {
			// both same inf
			return mkBool(op == "<=" || op == ">=")
		}
		switch op {
		case "<":
			return mkBool(sa < sb)
		case "<=":
			return mkBool(sa <= sb)
		case ">":
			return mkBool(sa > sb)
		default:
			return mkBool(sa >= sb)
		}
	}
	res := func(c int) *Term {
		switch op {
		case "<":
			return mkBool(c < 0)
		case "<=":
			return mkBool(c <= 0)
		case ">":
			return mkBool(c > 0)
		default:
			return mkBool(c >= 0)
		}
	}
	if a.IsConst() && b.IsConst() {
		if a.sort == SInt {
			return res(a.iv.Cmp(b.iv))
		}
		return res(a.rv.Cmp(b.rv))
	}
	if a.sort == SInt {
		// interval decisions
		if a.hi != nil && b.lo != nil {
			c := a.hi.Cmp(b.lo)
			if c < 0 { // a < b surely
				return res(-1)
			}
			if c == 0 && (op == "<=" || op == ">") { // a <= b surely
				return mkBool(op == "<=")
			}
		}
		if a.lo != nil && b.hi != nil {
			c := a.lo.Cmp(b.hi)
			if c > 0 {
				return res(1)
			}
			if c == 0 && (op == ">=" || op == "<") {
				return mkBool(op == ">=")
			}
		}
	}
	return &Term{op: op, sort: SBool, args: []*Term{a, b}}
}

func tAdd(a, b *Term) *Term {
	if a.sort == SReal || b.sort == SReal {
		return rArith("+", toReal(a), toReal(b))
	}
	if a.IsConst() && b.IsConst() {
		return mkInt(new(big.Int).Add(a.iv, b.iv))
	}
	if a.IsConst() && a.iv.Sign() == 0 {
		return b
	}
	if b.IsConst() && b.iv.Sign() == 0 {
		return a
	}
	// (x + c1) + c2
	if b.IsConst() && a.op == "+" && len(a.args) == 2 && a.args[1].IsConst() {
		return tAdd(a.args[0], mkInt(new(big.Int).Add(a.args[1].iv, b.iv)))
	}
	return &Term{op: "+", sort: SInt, args: []*Term{a, b}, lo: addB(a.lo, b.lo), hi: addB(a.hi, b.hi)}
}

func tSub(a, b *Term) *Term {
	if a.sort == SReal || b.sort == SReal {
		return rArith("-", toReal(a), toReal(b))
	}
	if a.IsConst() && b.IsConst() {
		return mkInt(new(big.Int).Sub(a.iv, b.iv))
	}
	if b.IsConst() {
		return tAdd(a, mkInt(new(big.Int).Neg(b.iv)))
	}
	if a == b {
		return mkInt64(0)
	}
	return &Term{op: "-", sort: SInt, args: []*Term{a, b}, lo: subB(a.lo, b.hi), hi: subB(a.hi, b.lo)}
}

func tNeg(a *Term) *Term {
	if a.sort == SReal {
		if a.IsConst() {
			return mkReal(new(big.Rat).Neg(a.rv))
		}
		if a.op == "inf" {
			return &Term{op: "inf", sort: SReal, rv: new(big.Rat).Neg(a.rv)}
		}
		if a.op == "nan" {
			return a
		}
		return &Term{op: "-", sort: SReal, args: []*Term{a}}
	}
	return tSub(mkInt64(0), a)
}

func tMul(a, b *Term) *Term {
	if a.sort == SReal || b.sort == SReal {
		return rArith("*", toReal(a), toReal(b))
	}
	if a.IsConst() && b.IsConst() {
		return mkInt(new(big.Int).Mul(a.iv, b.iv))
	}
	if b.IsConst() {
		a, b = b, a
	}
	if a.IsConst() {
		if a.iv.Sign() == 0 {
			return a
		}
		if a.iv.Cmp(big.NewInt(1)) == 0 {
			return b
		}
	}
	t := &Term{op: "*", sort: SInt, args: []*Term{a, b}}
	if a.lo != nil && a.hi != nil && b.lo != nil && b.hi != nil {
		c := []*big.Int{
			new(big.Int).Mul(a.lo, b.lo), new(big.Int).Mul(a.lo, b.hi),
			new(big.Int).Mul(a.hi, b.lo), new(big.Int).Mul(a.hi, b.hi)}
		lo, hi := c[0], c[0]
		for _, x := range c[1:] {
			lo = minB(lo, x)
			hi = maxB(hi, x)
		}
		t.lo, t.hi = lo, hi
	}
	return t
}

// Euclidean div/mod as in SMT-LIB (divisor must be a non-zero term; caller checks)
func tDivE(a, b *Term) *Term {
	if a.IsConst() && b.IsConst() && b.iv.Sign() != 0 {
		q, m := new(big.Int).DivMod(a.iv, b.iv, new(big.Int))
		_ = m
		return mkInt(q)
	}
	if x, _, ok := splitMulAdd(a, b); ok {
		return x
	}
	t := &Term{op: "div", sort: SInt, args: []*Term{a, b}}
	if b.IsConst() && b.iv.Sign() > 0 && a.lo != nil && a.hi != nil {
		t.lo = new(big.Int).Div(a.lo, b.iv) // big.Int Div is Euclidean
		t.hi = new(big.Int).Div(a.hi, b.iv)
	}
	return t
}

func tModE(a, b *Term) *Term {
	if a.IsConst() && b.IsConst() && b.iv.Sign() != 0 {
		return mkInt(new(big.Int).Mod(a.iv, b.iv))
	}
	if _, y, ok := splitMulAdd(a, b); ok {
		return y
	}
	t := &Term{op: "mod", sort: SInt, args: []*Term{a, b}}
	if b.IsConst() && b.iv.Sign() != 0 {
		t.lo = big.NewInt(0)
		t.hi = new(big.Int).Sub(new(big.Int).Abs(b.iv), big.NewInt(1))
		if a.lo != nil && a.hi != nil && a.lo.Sign() >= 0 && a.hi.Cmp(t.hi) <= 0 {
			return a // already reduced
		}
	} else if b.lo != nil && b.hi != nil {
		t.lo = big.NewInt(0)
		m := maxB(new(big.Int).Abs(b.lo), new(big.Int).Abs(b.hi))
		t.hi = new(big.Int).Sub(m, big.NewInt(1))
	}
	return t
}

// Go-style truncated division (b known non-zero).
func tQuoGo(a, b *Term) *Term {
	if a.IsConst() && b.IsConst() {
		return mkInt(new(big.Int).Quo(a.iv, b.iv))
	}
	if a.lo != nil && a.lo.Sign() >= 0 && b.lo != nil && b.lo.Sign() > 0 {
		return tDivE(a, b)
	}
	// trunc: sign(a)*sign(b) * (|a| div |b|)
	absA := tIte(tCmp(">=", a, mkInt64(0)), a, tNeg(a))
	absB := tIte(tCmp(">=", b, mkInt64(0)), b, tNeg(b))
	q := tDivE(absA, absB)
	sameSign := tEq(tCmp(">=", a, mkInt64(0)), tCmp(">=", b, mkInt64(0)))
	return tIte(sameSign, q, tNeg(q))
}

func tRemGo(a, b *Term) *Term {
	if a.IsConst() && b.IsConst() {
		return mkInt(new(big.Int).Rem(a.iv, b.iv))
	}
	if a.lo != nil && a.lo.Sign() >= 0 && b.lo != nil && b.lo.Sign() > 0 {
		return tModE(a, b)
	}
	return tSub(a, tMul(b, tQuoGo(a, b)))
}

func rArith(op string, a, b *Term) *Term {
	if a.IsSpecialFloat() || b.IsSpecialFloat() {
		return specialFloatArith(op, a, b)
	}
	if a.IsConst() && b.IsConst() {
		r := new(big.Rat)
		switch op {
		case "+":
			r.Add(a.rv, b.rv)
		case "-":
			r.Sub(a.rv, b.rv)
		case "*":
			r.Mul(a.rv, b.rv)
		case "/":
			if b.rv.Sign() == 0 {
				panic("rArith: const division by zero must be handled by caller")
			}
			r.Quo(a.rv, b.rv)
		}
		return mkReal(r)
	}
	if op == "*" {
		if a.IsConst() && a.rv.Cmp(big.NewRat(1, 1)) == 0 {
			return b
		}
		if b.IsConst() && b.rv.Cmp(big.NewRat(1, 1)) == 0 {
			return a
		}
		if (a.IsConst() && a.rv.Sign() == 0) || (b.IsConst() && b.rv.Sign() == 0) {
			return mkReal(new(big.Rat))
		}
	}
	if op == "+" {
		if a.IsConst() && a.rv.Sign() == 0 {
			return b
		}
		if b.IsConst() && b.rv.Sign() == 0 {
			return a
		}
	}
	if op == "-" && b.IsConst() && b.rv.Sign() == 0 {
		return a
	}
	if op == "/" && b.IsConst() {
		// multiply by reciprocal keeps things linear
		return rArith("*", a, mkReal(new(big.Rat).Inv(b.rv)))
	}
	r := &Term{op: op, sort: SReal, args: []*Term{a, b}}
	switch op {
	case "+":
		r.lo, r.hi = addB(realLo(a), realLo(b)), addB(realHi(a), realHi(b))
	case "-":
		r.lo, r.hi = subB(realLo(a), realHi(b)), subB(realHi(a), realLo(b))
	}
	return r
}

// conservative integer bounds of a real-sorted term (nil = unknown)
func realLo(t *Term) *big.Int {
	if t.IsConst() && t.sort == SReal {
		return new(big.Int).Div(t.rv.Num(), t.rv.Denom())
	}
	if t.op == "to_real" {
		return t.args[0].lo
	}
	return t.lo
}
func realHi(t *Term) *big.Int {
	if t.IsConst() && t.sort == SReal {
		f := new(big.Int).Div(t.rv.Num(), t.rv.Denom())
		if !t.rv.IsInt() {
			f.Add(f, big.NewInt(1))
		}
		return f
	}
	if t.op == "to_real" {
		return t.args[0].hi
	}
	return t.hi
}

var tNaN = &Term{op: "nan", sort: SReal}

func tInf(sign int) *Term { return &Term{op: "inf", sort: SReal, rv: big.NewRat(int64(sign), 1)} }

// specialFloatArith handles the cases with a *concrete* other operand; a symbolic
// operand combined with inf yields a "poison" nan-like marker handled by the caller.
func specialFloatArith(op string, a, b *Term) *Term {
	if a.op == "nan" || b.op == "nan" {
		return tNaN
	}
	sign := func(t *Term) (int, bool) {
		if t.op == "inf" {
			return t.rv.Sign(), true
		}
		if t.IsConst() {
			return t.rv.Sign(), true
		}
		return 0, false
	}
	sa, oka := sign(a)
	sb, okb := sign(b)
	if !oka || !okb {
		return &Term{op: "poison", sort: SReal}
	}
	switch op {
	case "+":
		if a.op == "inf" && b.op == "inf" {
			if sa == sb {
				return a
			}
			return tNaN
		}
		if a.op == "inf" {
			return a
		}
		return b
	case "-":
		if a.op == "inf" && b.op == "inf" {
			if sa != sb {
				return a
			}
			return tNaN
		}
		if a.op == "inf" {
			return a
		}
		return tInf(-sb)
	case "*":
		if sa == 0 || sb == 0 {
			return tNaN
		}
		return tInf(sa * sb)
	case "/":
		if a.op == "inf" && b.op == "inf" {
			return tNaN
		}
		if a.op == "inf" {
			if sb == 0 {
				sb = 1
			}
			return tInf(sa * sb)
		}
		return mkReal(new(big.Rat)) // finite / inf = 0
	}
	panic("specialFloatArith " + op)
}

func tToInt(a *Term) *Term { // floor
	if a.IsConst() {
		n, d := a.rv.Num(), a.rv.Denom()
		return mkInt(new(big.Int).Div(n, d)) // Euclidean: floor for positive d
	}
	return &Term{op: "to_int", sort: SInt, args: []*Term{a}}
}

// truncation toward zero
func tTruncReal(a *Term) *Term {
	if a.IsConst() {
		n, d := a.rv.Num(), a.rv.Denom()
		return mkInt(new(big.Int).Quo(n, d))
	}
	zero := mkReal(new(big.Rat))
	return tIte(tCmp(">=", a, zero), tToInt(a), tNeg(tToInt(tNeg(a))))
}

var pow2cache = map[uint]*big.Int{}

func pow2(n uint) *big.Int {
	if v, ok := pow2cache[n]; ok {
		return v
	}
	v := new(big.Int).Lsh(big.NewInt(1), n)
	pow2cache[n] = v
	return v
}

func init() {
	for i := uint(0); i <= 64; i++ {
		pow2(i)
	}
}

// inRange reports whether t's interval is known to lie within [lo,hi]
func (t *Term) within(lo, hi *big.Int) bool {
	return t.lo != nil && t.hi != nil && t.lo.Cmp(lo) >= 0 && t.hi.Cmp(hi) <= 0
}

// tWrap wraps an Int term into the range of an integer type of the given width.
func tWrap(t *Term, bits uint, signed bool) *Term {
	var lo, hi *big.Int
	if signed {
		lo = new(big.Int).Neg(pow2(bits - 1))
		hi = new(big.Int).Sub(pow2(bits-1), big.NewInt(1))
	} else {
		lo = big.NewInt(0)
		hi = new(big.Int).Sub(pow2(bits), big.NewInt(1))
	}
	if t.IsConst() {
		if t.iv.Cmp(lo) >= 0 && t.iv.Cmp(hi) <= 0 {
			return t
		}
		v := new(big.Int).Mod(new(big.Int).Sub(t.iv, lo), pow2(bits))
		return mkInt(v.Add(v, lo))
	}
	if t.within(lo, hi) {
		return t
	}
	if t.sort != SInt {
		panic(pathAbort{"unsupported", "wrap-around of a relaxed (real-sorted) integer whose range is not known"})
	}
	var w *Term
	if signed {
		w = tSub(tModE(tAdd(t, mkInt(pow2(bits-1))), mkInt(pow2(bits))), mkInt(pow2(bits-1)))
	} else {
		w = tModE(t, mkInt(pow2(bits)))
	}
	inr := tAnd(tCmp(">=", t, mkInt(lo)), tCmp("<=", t, mkInt(hi)))
	r := tIte(inr, t, w)
	r.lo, r.hi = lo, hi
	if t.lo != nil && t.lo.Cmp(lo) >= 0 && t.hi == nil {
		// keep
	}
	return r
}

func fmtModelVal(s string) string { return s }

var _ = fmt.Sprintf

// splitMulAdd recognises a = c*x + y with 0 <= y < c for the constant divisor c, so that
// a div c = x and a mod c = y without involving the solver.
func splitMulAdd(a, c *Term) (x, y *Term, ok bool) {
	if !c.IsConst() || c.iv.Sign() <= 0 || a.op != "+" || len(a.args) != 2 {
		return nil, nil, false
	}
	try := func(p, q *Term) (*Term, *Term, bool) {
		if p.op == "*" && len(p.args) == 2 && p.args[0].IsConst() && p.args[0].iv.Cmp(c.iv) == 0 {
			if q.lo != nil && q.hi != nil && q.lo.Sign() >= 0 && q.hi.Cmp(c.iv) < 0 {
				return p.args[1], q, true
			}
		}
		return nil, nil, false
	}
	if x, y, ok := try(a.args[0], a.args[1]); ok {
		return x, y, true
	}
	return try(a.args[1], a.args[0])
}
