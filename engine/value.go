package main

// Runtime values of the symbolic interpreter.
//
//   *Term                 bool, all integer kinds, float64 (Real)
//   Str                   string: concrete length, bytes are Int terms in [0,255]
//   *Value                pointer (to a slot)
//   structV, arrayV       aggregates (copied on load/store)
//   []Value  (sliceV)     slices share their backing Go slice
//   Iface                 interface value with concrete dynamic type
//   *Closure, *ssa.Function, *ssa.Builtin
//   tuple                 multi-value results
//   *MapV, *ChanV         reference types
//   TimeV                 time.Time as an instant (Int ns since Unix epoch)
//   *CtxV                 modelled context.Context
//   nil                   nil pointer / func / map / chan of any type is represented by typed zero below

import (
	"fmt"
	"go/types"
	"math/big"
	"strings"

	"golang.org/x/tools/go/ssa"
)

type Value interface{}

type structV []Value
type arrayV []Value
type tuple []Value

type sliceV struct {
	a   []Value // backing array (whole)
	off int
	len int
	cap int // capacity counted from off
	nil bool
}

func (s sliceV) at(i int) *Value { return &s.a[s.off+i] }
func (s sliceV) elems() []Value  { return s.a[s.off : s.off+s.len] }

type Str struct {
	s string  // valid if b == nil
	b []*Term // symbolic bytes (some may be const)
}

func (s Str) Len() int {
	if s.b != nil {
		return len(s.b)
	}
	return len(s.s)
}
func (s Str) IsConc() bool { return s.b == nil }
func (s Str) At(i int) *Term {
	if s.b != nil {
		return s.b[i]
	}
	return byteTerm(s.s[i])
}
func (s Str) Slice(lo, hi int) Str {
	if s.b != nil {
		return mkStrTerms(s.b[lo:hi])
	}
	return Str{s: s.s[lo:hi]}
}

var byteTerms [256]*Term

func init() {
	for i := range byteTerms {
		byteTerms[i] = mkInt64(int64(i))
	}
}
func byteTerm(b byte) *Term { return byteTerms[b] }

func mkStrTerms(b []*Term) Str {
	allc := true
	for _, t := range b {
		if !t.IsConst() {
			allc = false
			break
		}
	}
	if allc {
		bs := make([]byte, len(b))
		for i, t := range b {
			bs[i] = byte(t.iv.Int64())
		}
		return Str{s: string(bs)}
	}
	if len(b) == 0 {
		return Str{}
	}
	return Str{b: b}
}

func (s Str) String() string {
	if s.IsConc() {
		return fmt.Sprintf("%q", s.s)
	}
	var sb strings.Builder
	sb.WriteString("sym\"")
	for _, t := range s.b {
		if t.IsConst() {
			sb.WriteByte(byte(t.iv.Int64()))
		} else {
			sb.WriteString("{" + t.String() + "}")
		}
	}
	sb.WriteString("\"")
	return sb.String()
}

type Iface struct {
	T types.Type // nil => nil interface
	V Value
}

type Closure struct {
	Fn  *ssa.Function
	Env []Value
}

type mapEntry struct {
	k Value
	v Value
}

type MapV struct {
	entries []*mapEntry
	conc    map[string]*mapEntry // index for concrete keys
	writers int
}

type TimeV struct {
	ns *Term // instant: nanoseconds since Unix epoch
}

// Unix nanoseconds of Go's zero time.Time (0001-01-01 00:00:00 UTC)
var zeroTimeNs = new(big.Int).Mul(big.NewInt(-62135596800), big.NewInt(1000000000))

// poison marks a value that could not be computed during tolerant package init.
type poisonV struct{ why string }

// typed nil pointer
type nilPtr struct{}

func isNamed(t types.Type, pkg, name string) bool {
	n, ok := t.(*types.Named)
	if !ok {
		if a, ok2 := t.(*types.Alias); ok2 {
			return isNamed(types.Unalias(a), pkg, name)
		}
		return false
	}
	o := n.Obj()
	return o.Name() == name && o.Pkg() != nil && o.Pkg().Path() == pkg
}

func zero(t types.Type) Value {
	if isNamed(t, "time", "Time") {
		return TimeV{ns: mkInt(zeroTimeNs)}
	}
	switch t := t.Underlying().(type) {
	case *types.Basic:
		switch {
		case t.Kind() == types.UntypedNil:
			panic("untyped nil has no zero value")
		case t.Info()&types.IsBoolean != 0:
			return tFalse
		case t.Info()&types.IsInteger != 0:
			return mkInt64(0)
		case t.Info()&types.IsFloat != 0:
			return mkReal(new(big.Rat))
		case t.Info()&types.IsString != 0:
			return Str{}
		case t.Kind() == types.UnsafePointer:
			return (*Value)(nil)
		case t.Info()&types.IsComplex != 0:
			return poisonV{"complex"}
		}
		panic(fmt.Sprintf("zero: basic %v", t))
	case *types.Pointer:
		return (*Value)(nil)
	case *types.Array:
		a := make(arrayV, t.Len())
		for i := range a {
			a[i] = zero(t.Elem())
		}
		return a
	case *types.Slice:
		return sliceV{nil: true}
	case *types.Struct:
		s := make(structV, t.NumFields())
		for i := range s {
			s[i] = zero(t.Field(i).Type())
		}
		return s
	case *types.Tuple:
		if t.Len() == 1 {
			return zero(t.At(0).Type())
		}
		s := make(tuple, t.Len())
		for i := range s {
			s[i] = zero(t.At(i).Type())
		}
		return s
	case *types.Chan:
		return (*ChanV)(nil)
	case *types.Map:
		return (*MapV)(nil)
	case *types.Signature:
		return (*ssa.Function)(nil)
	case *types.Interface:
		return Iface{}
	}
	panic(fmt.Sprintf("zero: unexpected %T %v", t, t))
}

// copyVal makes an unaliased copy of aggregates.
func copyVal(v Value) Value {
	switch v := v.(type) {
	case structV:
		c := make(structV, len(v))
		for i := range v {
			c[i] = copyVal(v[i])
		}
		return c
	case arrayV:
		c := make(arrayV, len(v))
		for i := range v {
			c[i] = copyVal(v[i])
		}
		return c
	}
	return v
}

func isNilValue(v Value) bool {
	switch v := v.(type) {
	case *Value:
		return v == nil
	case sliceV:
		return v.nil
	case *MapV:
		return v == nil
	case *ChanV:
		return v == nil
	case *ssa.Function:
		return v == nil
	case *Closure:
		return v == nil
	case Iface:
		return v.T == nil
	case nil:
		return true
	case *CtxV:
		return v == nil
	}
	return false
}

func valString(v Value) string {
	switch v := v.(type) {
	case *Term:
		return v.String()
	case Str:
		return v.String()
	case structV:
		parts := make([]string, len(v))
		for i, f := range v {
			parts[i] = valString(f)
		}
		return "{" + strings.Join(parts, ", ") + "}"
	case arrayV:
		return fmt.Sprintf("[%d]...", len(v))
	case sliceV:
		return fmt.Sprintf("slice(len=%d)", v.len)
	case Iface:
		if v.T == nil {
			return "nil-iface"
		}
		return "iface(" + v.T.String() + ")"
	case TimeV:
		return "time(" + v.ns.String() + ")"
	case *Value:
		if v == nil {
			return "nil-ptr"
		}
		return fmt.Sprintf("ptr(%p)", v)
	case *ssa.Function:
		if v == nil {
			return "nil-func"
		}
		return v.String()
	case *Closure:
		return "closure(" + v.Fn.String() + ")"
	}
	return fmt.Sprintf("%T", v)
}
