package main

// Threads, scheduling decisions, channels, select, sync primitives, context and timers.
//
// Threads are engine goroutines that hand a baton to each other; exactly one runs at a
// time. Switches happen only at visible operations: blocking ones always (free), and,
// while the preemption budget lasts, before any visible operation.

import (
	"fmt"
	"go/types"
	"math/big"
	"strings"

	"golang.org/x/tools/go/ssa"
)

type Thread struct {
	id      int
	name    string
	wake    chan struct{}
	done    bool
	started bool
	pred    func() bool // non-nil while parked: thread is enabled iff pred()
	offers  []chanOffer // select/chan offers while parked
	// completion by a peer (rendezvous)
	completed int   // index of the offer completed by a peer, -1 if none
	timerWait bool  // yielded while only a timer could let it continue (lazy timers)
	recvVal   Value // value delivered to a completed recv offer
	recvOk    bool
	exited    chan struct{}
	locks     []interface{} // held locks (for race analysis)
	vc        []int         // vector clock
}

type chanOffer struct {
	ch   *ChanV
	send bool
	val  Value
}

type ChanV struct {
	id     int
	cap    int
	buf    []Value
	closed bool
	timer  *timerState // non-nil for timer channels
	vc     []int
}

type timerState struct {
	deadline *Term // instant at which it fires
	active   bool
	fired    bool
	period   *Term // tickers
}

func (m *Machine) newChan(capacity int) *ChanV {
	return &ChanV{cap: capacity, id: len(m.side) + 1}
}

// runThreads runs the harness entry on the main thread and waits for the path to finish.
func (m *Machine) runThreads() {
	m.doneCh = make(chan struct{})
	main := &Thread{id: 0, name: "main", wake: make(chan struct{}, 1), exited: make(chan struct{}), completed: -1}
	m.threads = []*Thread{main}
	m.cur = main
	main.started = true
	go m.threadBody(main, func() {
		m.call(nil, 0, m.eng.entry, nil, nil)
	})
	<-m.doneCh
	// kill all parked threads
	m.killed = true
	for _, t := range m.threads {
		if t.started && !t.done {
			select {
			case t.wake <- struct{}{}:
			default:
			}
			<-t.exited
		}
	}
}

func (m *Machine) finishPath(o PathOutcome) {
	// called by the thread that ends the path; only the first call counts
	if m.killed {
		return
	}
	m.outcome = o
	m.killed = true
	close(m.doneCh)
}

func (m *Machine) threadBody(t *Thread, body func()) {
	defer close(t.exited)
	defer func() {
		r := recover()
		t.done = true
		if r == nil {
			return
		}
		if pa, ok := r.(pathAbort); ok {
			if pa.kind == "killed" {
				return
			}
			if pa.kind == "deadlock" || pa.kind == "fatal" {
				m.noteLiveness(pa)
			}
			if pa.kind == "exit" {
				m.runExitChecks(pa.msg)
			}
			if pa.kind == "unwind" && m.ghost["spin"] != nil {
				// the harness declared that exceeding the loop bound means "spins forever"
				m.noteLiveness(pathAbort{"spin", pa.msg})
			}
			m.finishPath(PathOutcome{pa.kind, pa.msg})
			return
		}
		if tp, ok := r.(targetPanic); ok {
			msg := m.panicString(tp.v)
			m.onUncaughtPanic(t, msg)
			return
		}
		pa := engineErrorFromPanic(r)
		m.finishPath(PathOutcome{pa.kind, pa.msg})
	}()
	body()
	t.done = true
	if t.id == 0 {
		m.collectWitness()
		m.finishPath(PathOutcome{Kind: "ok"})
		return
	}
	// hand the baton to someone else
	m.scheduleAway(t)
}

func (m *Machine) panicString(v Value) string {
	switch v := v.(type) {
	case Iface:
		if v.T == nil {
			return "panic(nil)"
		}
		switch x := v.V.(type) {
		case Str:
			if x.IsConc() {
				return v.T.String() + ": " + x.s
			}
		}
		// error values: try to call Error() only for simple known shapes
		return "panic of type " + v.T.String()
	case Str:
		if v.IsConc() {
			return v.s
		}
	}
	return fmt.Sprintf("panic(%T)", v)
}

// onUncaughtPanic: an uncaught program panic crashes the process. It is reported as a
// violation of the implicit check "<harness>.nopanic" with a model of the path condition.
func (m *Machine) onUncaughtPanic(t *Thread, msg string) {
	func() {
		defer func() { recover() }()
		cs := m.stat("nopanic")
		cs.Reached++
		cs.Violated++
		model := m.pathModel()
		note := "uncaught panic in thread " + t.name + ": " + msg
		if m.faultPos != "" {
			note += " [" + m.faultPos + "]"
		}
		m.recordViolation("nopanic", model, note)
	}()
	m.finishPath(PathOutcome{"panic", msg})
}

// ---------- scheduling ----------

func (m *Machine) enabled(t *Thread) bool {
	if t.done || !t.started {
		return false
	}
	if t.pred == nil {
		return true
	}
	return t.completed >= 0 || t.pred()
}

// others returns the enabled threads other than self in round-robin order after self.
func (m *Machine) others(self *Thread) []*Thread {
	var out, timerOnly []*Thread
	lazy := m.ghost["lazytimers"] != nil
	n := len(m.threads)
	for i := 1; i <= n; i++ {
		t := m.threads[(self.id+i)%n]
		if t != self && m.enabled(t) {
			if lazy && !m.enabledNoTimer(t) {
				// "time is slow": a thread that can only continue by letting a timer fire runs
				// after every thread that has work to do (earlier firing costs delays)
				timerOnly = append(timerOnly, t)
				continue
			}
			out = append(out, t)
		}
	}
	return append(out, timerOnly...)
}

// enabledNoTimer: t is enabled without any timer having to fire.
func (m *Machine) enabledNoTimer(t *Thread) bool {
	if t.timerWait {
		return false
	}
	m.ignoreTimers = true
	defer func() { m.ignoreTimers = false }()
	return m.enabled(t)
}

// timerPatience is called when the current thread could continue only by letting a timer fire
// (lazy timers): threads that have work to do run first; firing the timer at once instead costs
// as many delays as there are such threads. Returns true when the timer is to fire now.
func (m *Machine) timerPatience() bool {
	if m.ghost["lazytimers"] == nil || m.inInit > 0 {
		return true
	}
	self := m.cur
	var cands []*Thread
	for _, t := range m.others(self) {
		if m.enabledNoTimer(t) {
			cands = append(cands, t)
		}
	}
	if len(cands) == 0 {
		return true
	}
	n := len(cands) + 1
	if n > m.preemptLeft+1 {
		n = m.preemptLeft + 1
	}
	k := m.choose(n, "timer")
	m.preemptLeft -= k
	if k == len(cands) {
		return true
	}
	self.timerWait = true
	self.pred = func() bool { return true }
	m.switchTo(self, cands[k])
	self.pred = nil
	self.timerWait = false
	return false
}

// pickNext chooses the thread to run next among cands (round-robin order). With delay-bounded
// scheduling (default) taking the j-th candidate costs j units of the remaining budget; with
// free scheduling every candidate may be chosen at a blocking point.
func (m *Machine) pickNext(cands []*Thread) *Thread {
	if m.eng.cfg.FreeSched {
		return cands[m.choose(len(cands), "sched")]
	}
	n := len(cands)
	if n > m.preemptLeft+1 {
		n = m.preemptLeft + 1
	}
	k := m.choose(n, "sched")
	m.preemptLeft -= k
	return cands[k]
}

// switchTo passes the baton from the current thread to t and waits to be resumed.
func (m *Machine) switchTo(self, t *Thread) {
	m.schedLog = append(m.schedLog, fmt.Sprintf("%s->%s", self.name, t.name))
	if len(m.schedLog) > 400 {
		m.schedLog = m.schedLog[len(m.schedLog)-400:]
	}
	m.cur = t
	t.wake <- struct{}{}
	if self.done {
		return
	}
	<-self.wake
	if m.killed {
		panic(pathAbort{"killed", ""})
	}
	m.cur = self
}

// scheduleAway is called by a finished thread: somebody else must run.
func (m *Machine) scheduleAway(self *Thread) {
	cands := m.others(self)
	if len(cands) == 0 {
		pa := pathAbort{"deadlock", m.describeBlocked()}
		m.noteLiveness(pa)
		m.finishPath(PathOutcome{pa.kind, pa.msg})
		return
	}
	m.switchTo(self, m.pickNext(cands))
}

// noteLiveness records a deadlock (or fatal runtime error) as a violation of the implicit
// checks "nodeadlock" / "nofatal".
func (m *Machine) noteLiveness(pa pathAbort) {
	if m.killed {
		return
	}
	defer func() { recover() }()
	id := "no" + pa.kind
	cs := m.stat(id)
	cs.Reached++
	cs.Violated++
	m.recordViolation(id, m.pathModel(), pa.msg)
}

func (m *Machine) describeBlocked() string {
	s := ""
	for _, t := range m.threads {
		if !t.done && t.started {
			s += t.name + " "
		}
	}
	return "blocked threads: " + s
}

// park blocks the current thread until pred() holds (or a peer completes one of its offers).
func (m *Machine) park(pred func() bool) {
	self := m.cur
	self.pred = pred
	for {
		cands := m.others(self)
		if len(cands) == 0 {
			if m.enabled(self) {
				break
			}
			self.pred = nil
			panic(pathAbort{"deadlock", m.describeBlocked()})
		}
		m.switchTo(self, m.pickNext(cands))
		if m.enabled(self) {
			break
		}
	}
	self.pred = nil
}

// visible marks a visible operation: a preemption may happen before it.
func (m *Machine) visible(what string) {
	if m.inInit > 0 || len(m.threads) <= 1 || m.preemptLeft <= 0 {
		return
	}
	self := m.cur
	cands := m.others(self)
	if len(cands) == 0 {
		return
	}
	if m.eng.cfg.FreeSched {
		k := m.choose(len(cands)+1, "preempt")
		if k == 0 {
			return
		}
		m.preemptLeft--
		m.switchTo(self, cands[k-1])
		return
	}
	n := len(cands)
	if n > m.preemptLeft {
		n = m.preemptLeft
	}
	k := m.choose(n+1, "preempt")
	if k == 0 {
		return
	}
	m.preemptLeft -= k
	m.switchTo(self, cands[k-1])
}

func (m *Machine) spawn(fr *frame, instr *ssa.Go, fn Value, args []Value) {
	if m.inInit > 0 {
		m.unsupported("go statement during package init")
	}
	parent := m.cur
	t := &Thread{id: len(m.threads), wake: make(chan struct{}, 1), exited: make(chan struct{}), completed: -1}
	t.name = fmt.Sprintf("g%d", t.id)
	switch f := fn.(type) {
	case *ssa.Function:
		t.name += ":" + f.Name()
	case *Closure:
		t.name += ":" + f.Fn.Name()
	}
	m.threads = append(m.threads, t)
	m.hbSpawn(parent, t)
	t.started = true
	go func() {
		<-t.wake
		if m.killed {
			t.done = true
			close(t.exited)
			return
		}
		m.cur = t
		m.threadBody(t, func() { m.call(nil, instr.Pos(), fn, args, nil) })
	}()
	m.visible("go")
}

// ---------- channels ----------

func (ch *ChanV) isTimer() bool { return ch != nil && ch.timer != nil }

// peerOffer finds a parked thread with a matching offer on ch.
func (m *Machine) peerOffers(ch *ChanV, wantSend bool) []*Thread {
	var out []*Thread
	for _, t := range m.threads {
		if t == m.cur || t.done || t.pred == nil || t.completed >= 0 {
			continue
		}
		for _, o := range t.offers {
			if o.ch == ch && o.send == wantSend {
				out = append(out, t)
				break
			}
		}
	}
	return out
}

func (m *Machine) canSend(ch *ChanV) bool {
	if ch == nil {
		return false
	}
	if ch.closed {
		return true // will panic
	}
	if len(ch.buf) < ch.cap {
		return true
	}
	return len(m.peerOffers(ch, false)) > 0
}

func (m *Machine) canRecv(ch *ChanV) bool {
	if ch == nil {
		return false
	}
	if ch.isTimer() {
		if m.ignoreTimers {
			return len(ch.buf) > 0
		}
		// bounded number of timer events per path (stated bound; keeps ticker loops finite)
		if m.timerFires >= m.eng.cfg.MaxTimerFires {
			return len(ch.buf) > 0
		}
		return ch.timer.active && !ch.timer.fired || len(ch.buf) > 0
	}
	if len(ch.buf) > 0 || ch.closed {
		return true
	}
	return len(m.peerOffers(ch, true)) > 0
}

func (m *Machine) doSend(ch *ChanV, v Value) {
	if ch.closed {
		m.rtPanic("send on closed channel")
	}
	// direct hand-off to a parked receiver when the buffer is empty
	if len(ch.buf) == 0 {
		if peers := m.peerOffers(ch, false); len(peers) > 0 {
			p := peers[m.choose(len(peers), "recvpeer")]
			for i, o := range p.offers {
				if o.ch == ch && !o.send {
					p.completed = i
					p.recvVal = copyVal(v)
					p.recvOk = true
					m.hbEdge(m.cur, p)
					break
				}
			}
			return
		}
	}
	if len(ch.buf) < ch.cap {
		ch.buf = append(ch.buf, copyVal(v))
		m.hbRelease(m.cur, &ch.vc)
		return
	}
	panic(pathAbort{"engine-error", "doSend on non-ready channel"})
}

func (m *Machine) doRecv(ch *ChanV, elem types.Type) (Value, bool) {
	if ch.isTimer() && len(ch.buf) == 0 {
		ts := ch.timer
		// the timer fires: time passes to (at least) its deadline
		m.timerFires++
		m.advanceClockTo(ts.deadline)
		if ts.period != nil {
			ts.deadline = tAdd(ts.deadline, ts.period)
		} else {
			ts.fired = true
		}
		return TimeV{ns: m.clock}, true
	}
	if len(ch.buf) > 0 {
		v := ch.buf[0]
		ch.buf = ch.buf[1:]
		m.hbAcquire(m.cur, ch.vc)
		// a parked sender can now move its value into the buffer
		if peers := m.peerOffers(ch, true); len(peers) > 0 && len(ch.buf) < ch.cap {
			p := peers[m.choose(len(peers), "sendpeer")]
			for i, o := range p.offers {
				if o.ch == ch && o.send {
					ch.buf = append(ch.buf, copyVal(o.val))
					p.completed = i
					m.hbRelease(p, &ch.vc) // (the parked sender's send: ordered before the receive of this value)
					break
				}
			}
		}
		return v, true
	}
	if peers := m.peerOffers(ch, true); len(peers) > 0 {
		p := peers[m.choose(len(peers), "sendpeer")]
		for i, o := range p.offers {
			if o.ch == ch && o.send {
				p.completed = i
				m.hbEdge(p, m.cur)
				return copyVal(o.val), true
			}
		}
	}
	if ch.closed {
		m.hbAcquire(m.cur, ch.vc)
		return zero(elem), false
	}
	panic(pathAbort{"engine-error", "doRecv on non-ready channel"})
}

func (m *Machine) chanSend(ch *ChanV, v Value) {
	m.visible("send")
	if ch == nil {
		m.park(func() bool { return false })
	}
	if !m.canSend(ch) {
		self := m.cur
		self.offers = []chanOffer{{ch: ch, send: true, val: v}}
		self.completed = -1
		m.park(func() bool { return m.canSend(ch) })
		self.offers = nil
		if self.completed >= 0 {
			self.completed = -1
			return
		}
	}
	m.doSend(ch, v)
}

func (m *Machine) chanRecv(ch *ChanV, elem types.Type) (Value, bool) {
	m.visible("recv")
	if ch == nil {
		m.park(func() bool { return false })
	}
	if !m.canRecv(ch) {
		self := m.cur
		self.offers = []chanOffer{{ch: ch, send: false}}
		self.completed = -1
		m.park(func() bool { return m.canRecv(ch) })
		self.offers = nil
		if self.completed >= 0 {
			self.completed = -1
			return self.recvVal, self.recvOk
		}
	}
	for ch.isTimer() && len(ch.buf) == 0 && !m.timerPatience() {
	}
	if !m.canRecv(ch) {
		return m.chanRecv(ch, elem)
	}
	return m.doRecv(ch, elem)
}

func (m *Machine) chanClose(ch *ChanV) {
	m.visible("close")
	if ch == nil {
		m.rtPanic("close of nil channel")
	}
	if ch.closed {
		m.rtPanic("close of closed channel")
	}
	ch.closed = true
	m.hbRelease(m.cur, &ch.vc)
	// parked senders will panic when resumed (canSend true on closed)
}

func (m *Machine) selectInstr(fr *frame, instr *ssa.Select) Value {
	m.visible("select")
	type cs struct {
		ch   *ChanV
		send bool
		val  Value
	}
	cases := make([]cs, len(instr.States))
	for i, st := range instr.States {
		ch, _ := fr.get(st.Chan).(*ChanV)
		cases[i] = cs{ch: ch, send: st.Dir == types.SendOnly}
		if st.Send != nil {
			cases[i].val = fr.get(st.Send)
		}
	}
	ready := func() []int {
		var r []int
		for i, c := range cases {
			if c.ch == nil {
				continue
			}
			if c.send && m.canSend(c.ch) || !c.send && m.canRecv(c.ch) {
				r = append(r, i)
			}
		}
		return r
	}
	result := func(chosen int, v Value, ok bool) Value {
		r := tuple{mkInt64(int64(chosen)), mkBool(ok)}
		for i, st := range instr.States {
			if st.Dir == types.RecvOnly {
				if i == chosen && v != nil {
					r = append(r, v)
				} else {
					r = append(r, zero(st.Chan.Type().Underlying().(*types.Chan).Elem()))
				}
			}
		}
		return r
	}
	for {
		rd := ready()
		if len(rd) > 0 && m.ghost["lazytimers"] != nil {
			m.ignoreTimers = true
			noTimer := ready()
			m.ignoreTimers = false
			if len(noTimer) == 0 && !m.timerPatience() {
				continue
			}
		}
		if len(rd) > 0 {
			i := rd[m.choose(len(rd), "select")]
			c := cases[i]
			if c.send {
				m.doSend(c.ch, c.val)
				return result(i, nil, false)
			}
			v, ok := m.doRecv(c.ch, instr.States[i].Chan.Type().Underlying().(*types.Chan).Elem())
			return result(i, v, ok)
		}
		if !instr.Blocking {
			return result(-1, nil, false)
		}
		self := m.cur
		self.offers = self.offers[:0]
		for _, c := range cases {
			self.offers = append(self.offers, chanOffer{ch: c.ch, send: c.send, val: c.val})
		}
		self.completed = -1
		m.park(func() bool { return len(ready()) > 0 })
		self.offers = nil
		if self.completed >= 0 {
			i := self.completed
			self.completed = -1
			if cases[i].send {
				return result(i, nil, false)
			}
			return result(i, self.recvVal, self.recvOk)
		}
	}
}

// ---------- clock ----------

func (m *Machine) now() *Term {
	if m.ghost["frozenclock"] != nil {
		if m.clock == nil {
			m.clock = mkInt64(1_500_000_000_123_456_789)
		}
		return m.clock
	}
	if m.clock == nil {
		m.clock = m.freshVar("clock0", SInt, big.NewInt(1_000_000_000_000_000_000), big.NewInt(4_000_000_000_000_000_000))
		return m.clock
	}
	if m.ghost["steadyclock"] != nil {
		// readings do not drift apart: time passes only through timers, sleeps and vAdvanceClock
		return m.clock
	}
	d := m.freshVar("dt", SInt, big.NewInt(0), big.NewInt(1_000_000_000_000_000))
	m.clock = tAdd(m.clock, d)
	return m.clock
}

func (m *Machine) advanceClockTo(t *Term) {
	if m.ghost["frozenclock"] != nil {
		return
	}
	if m.clock == nil {
		m.now()
	}
	maxLate := big.NewInt(1_000_000_000_000_000)
	if t, ok := m.ghost["timerlate"].(*Term); ok && t.IsConst() {
		maxLate = t.iv
	}
	late := m.freshVar("late", SInt, big.NewInt(0), maxLate)
	m.clock = tAdd(tIte(tCmp(">", t, m.clock), t, m.clock), late)
}

// ---------- mutex, rwmutex, once, waitgroup ----------

type mutexState struct {
	held    bool
	readers int
	vc      []int
}

func (m *Machine) mutexOf(p *Value) *mutexState {
	if s, ok := m.side[p]; ok {
		return s.(*mutexState)
	}
	s := &mutexState{}
	m.side[p] = s
	return s
}

func (m *Machine) mutexLock(p *Value) {
	m.visible("lock")
	s := m.mutexOf(p)
	if s.held || s.readers > 0 {
		m.park(func() bool { return !s.held && s.readers == 0 })
	}
	s.held = true
	m.cur.locks = append(m.cur.locks, s)
}

func (m *Machine) mutexTryLock(p *Value) bool {
	m.visible("trylock")
	s := m.mutexOf(p)
	if s.held || s.readers > 0 {
		return false
	}
	s.held = true
	m.cur.locks = append(m.cur.locks, s)
	return true
}

func (m *Machine) dropLock(s interface{}) {
	for i := len(m.cur.locks) - 1; i >= 0; i-- {
		if m.cur.locks[i] == s {
			m.cur.locks = append(m.cur.locks[:i:i], m.cur.locks[i+1:]...)
			return
		}
	}
}

func (m *Machine) mutexUnlock(p *Value) {
	m.visible("unlock")
	s := m.mutexOf(p)
	if !s.held {
		panic(pathAbort{"fatal", "sync: unlock of unlocked mutex"})
	}
	s.held = false
	m.dropLock(s)
}

func (m *Machine) rwRLock(p *Value) {
	m.visible("rlock")
	s := m.mutexOf(p)
	if s.held {
		m.park(func() bool { return !s.held })
	}
	s.readers++
	m.cur.locks = append(m.cur.locks, rlockOf{s})
}

type rlockOf struct{ s *mutexState }

func (m *Machine) rwRUnlock(p *Value) {
	m.visible("runlock")
	s := m.mutexOf(p)
	if s.readers <= 0 {
		panic(pathAbort{"fatal", "sync: RUnlock of unlocked RWMutex"})
	}
	s.readers--
	m.dropLock(rlockOf{s})
}

type onceState struct {
	done    bool
	running bool
	vc      []int
}

func (m *Machine) onceDo(fr *frame, p *Value, f Value) {
	m.visible("once")
	var s *onceState
	if x, ok := m.side[p]; ok {
		s = x.(*onceState)
	} else {
		s = &onceState{}
		m.side[p] = s
	}
	if s.done {
		m.hbAcquire(m.cur, s.vc)
		return
	}
	if s.running {
		m.park(func() bool { return s.done })
		m.hbAcquire(m.cur, s.vc)
		return
	}
	s.running = true
	defer func() {
		s.running = false
		s.done = true
		m.hbRelease(m.cur, &s.vc)
	}()
	m.call(fr, 0, f, nil, nil)
}

type wgState struct {
	n  int
	vc []int
}

func (m *Machine) wgOf(p *Value) *wgState {
	if x, ok := m.side[p]; ok {
		return x.(*wgState)
	}
	s := &wgState{}
	m.side[p] = s
	return s
}

func (m *Machine) wgAdd(p *Value, d int) {
	m.visible("wg.add")
	s := m.wgOf(p)
	s.n += d
	if s.n < 0 {
		m.rtPanic("sync: negative WaitGroup counter")
	}
	m.hbRelease(m.cur, &s.vc)
}

func (m *Machine) wgWait(p *Value) {
	m.visible("wg.wait")
	s := m.wgOf(p)
	if s.n > 0 {
		m.park(func() bool { return s.n == 0 })
	}
	m.hbAcquire(m.cur, s.vc)
}

// ---------- context model ----------

type CtxV struct {
	parent   *CtxV
	done     *ChanV
	err      Value // Iface error or nil iface
	children []*CtxV
	values   map[string]Value
	cancelOn bool // cancellable
	deadline *Term // own deadline (ns), nil if none
}

func (m *Machine) ctxBackground() *CtxV {
	if c, ok := m.ghost["ctx.background"]; ok {
		return c.(*CtxV)
	}
	c := &CtxV{err: Iface{}}
	m.ghost["ctx.background"] = c
	return c
}

func (m *Machine) ctxWithCancel(parent *CtxV) *CtxV {
	c := &CtxV{parent: parent, done: m.newChan(0), err: Iface{}, cancelOn: true}
	if parent != nil {
		parent.children = append(parent.children, c)
		if !isNilValue(parent.errOrNil()) {
			m.ctxCancel(c, parent.err)
		}
	}
	return c
}

func (c *CtxV) errOrNil() Value {
	if c.err == nil {
		return Iface{}
	}
	return c.err
}

func (c *CtxV) doneChan() *ChanV {
	for x := c; x != nil; x = x.parent {
		if x.done != nil {
			return x.done
		}
	}
	return nil
}

func (m *Machine) ctxCancel(c *CtxV, err Value) {
	if !isNilValue(c.errOrNil()) {
		return
	}
	c.err = err
	if c.done != nil && !c.done.closed {
		c.done.closed = true
		m.hbRelease(m.cur, &c.done.vc)
	}
	for _, ch := range c.children {
		m.ctxCancel(ch, err)
	}
}

func (c *CtxV) effectiveErr() Value {
	for x := c; x != nil; x = x.parent {
		if !isNilValue(x.errOrNil()) {
			return x.err
		}
		if x.done != nil {
			// own done channel not closed and no error: parents were propagated eagerly
			return Iface{}
		}
	}
	return Iface{}
}

// exit checks registered by vOnExit: evaluated when the (modelled) process exits.
type exitCheck struct {
	id      string
	flag    *Value
	allowed []string
}

func (m *Machine) runExitChecks(msg string) {
	if m.killed {
		return
	}
	defer func() { recover() }()
	for _, ec := range m.exitChecks {
		ok := false
		for _, a := range ec.allowed {
			if a != "" && strings.Contains(msg, a) {
				ok = true
			}
		}
		if ok {
			continue
		}
		if t, isT := (*ec.flag).(*Term); isT {
			m.check(ec.id, t)
		}
	}
}
