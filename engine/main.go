package main

// gosmt: bounded symbolic execution of Go functions taken from go/ssa of the current tree,
// decided by an SMT solver.
//
//   gosmt exec -dir /repo -pkg ./core/schedule -harness h1.go[,h2.go] -entries A,B [-preempt N] ...
//
// prints one JSON document with per-entry results.

import (
	"encoding/json"
	"flag"
	"fmt"
	"os"
	"path/filepath"
	"runtime/pprof"
	"sort"
	"strings"
	"time"

	"golang.org/x/tools/go/packages"
	"golang.org/x/tools/go/ssa"
	"golang.org/x/tools/go/ssa/ssautil"
)

type EntryResult struct {
	Entry      string                `json:"entry"`
	Paths      int                   `json:"paths"`
	Instrs     int64                 `json:"instrs"`
	Queries    int                   `json:"queries"`
	SolverS    float64               `json:"solver_s"`
	WallS      float64               `json:"wall_s"`
	Outcomes   map[string]int        `json:"outcomes"`
	OutcomeMsg map[string]string     `json:"outcome_msgs"`
	Checks     map[string]*CheckStat `json:"checks"`
	Violations []Violation           `json:"violations"`
	Funcs      []string              `json:"funcs"`
	Stubs      map[string]int        `json:"stubs"`
	Samples    []string              `json:"samples"`
	MaxDepth   int                   `json:"max_depth"`
	Cross      map[string]int        `json:"cross,omitempty"`
	Truncated  bool                  `json:"truncated"`
	Witnesses  []Witness             `json:"witnesses"`
}

func loadProgram(dir, pkgPat string, harnessFiles []string, extraPkgs []string) (*ssa.Program, *ssa.Package, error) {
	overlay := map[string][]byte{}
	absDir, _ := filepath.Abs(dir)
	pkgDir := filepath.Join(absDir, strings.TrimPrefix(pkgPat, "./"))
	for _, h := range harnessFiles {
		b, err := os.ReadFile(h)
		if err != nil {
			return nil, nil, err
		}
		overlay[filepath.Join(pkgDir, "zz_verif_"+filepath.Base(h))] = b
	}
	cfg := &packages.Config{
		Mode:    packages.LoadAllSyntax,
		Dir:     absDir,
		Overlay: overlay,
		Env:     append(os.Environ(), "GOFLAGS=-mod=mod", "GOPROXY=off", "GOSUMDB=off", "GOTOOLCHAIN=local"),
		Tests:   false,
	}
	pats := append([]string{pkgPat}, extraPkgs...)
	initial, err := packages.Load(cfg, pats...)
	if err != nil {
		return nil, nil, err
	}
	nerr := 0
	packages.Visit(initial, nil, func(p *packages.Package) {
		for _, e := range p.Errors {
			if nerr < 20 {
				fmt.Fprintln(os.Stderr, "load error:", e)
			}
			nerr++
		}
	})
	if nerr > 0 {
		return nil, nil, fmt.Errorf("%d package load errors", nerr)
	}
	prog, pkgs := ssautil.AllPackages(initial, ssa.InstantiateGenerics)
	prog.Build()
	return prog, pkgs[0], nil
}

func main() {
	if len(os.Args) < 2 {
		fmt.Fprintln(os.Stderr, "usage: gosmt exec ...")
		os.Exit(2)
	}
	switch os.Args[1] {
	case "exec":
		cmdExec(os.Args[2:])
	case "rewrite":
		// gosmt rewrite <in> <out> [now] [yield]
		doNow, doYield := false, false
		for _, a := range os.Args[4:] {
			if a == "now" {
				doNow = true
			}
			if a == "yield" {
				doYield = true
			}
		}
		if err := rewriteFile(os.Args[2], os.Args[3], doNow, doYield); err != nil {
			fmt.Fprintln(os.Stderr, err)
			os.Exit(1)
		}
	default:
		fmt.Fprintln(os.Stderr, "unknown command", os.Args[1])
		os.Exit(2)
	}
}

func cmdExec(args []string) {
	fs := flag.NewFlagSet("exec", flag.ExitOnError)
	dir := fs.String("dir", "/repo", "module root")
	pkg := fs.String("pkg", "", "package pattern relative to dir (./core/schedule)")
	harness := fs.String("harness", "", "comma-separated harness source files to overlay into the package")
	entries := fs.String("entries", "", "comma-separated harness entry functions")
	extra := fs.String("extra", "", "extra package patterns to load")
	preempt := fs.Int("preempt", 0, "preemption budget")
	unwind := fs.Int("unwind", 64, "loop unwinding limit per activation")
	maxPaths := fs.Int("maxpaths", 200000, "path budget per entry")
	steps := fs.Int64("steps", 5_000_000, "instruction budget per path")
	workers := fs.Int("workers", 8, "parallel workers")
	solver := fs.String("solver", "z3", "primary solver binary")
	fallback := fs.String("fallback", "z3-new", "comma-separated fallback solvers (one-shot) used when the primary answers unknown")
	queryMs := fs.Int("queryms", 60000, "per-query timeout (ms)")
	maxViol := fs.Int("maxviol", 3, "violations kept per check")
	cross := fs.String("cross", "", "comma-separated extra solvers to re-discharge final checks with")
	out := fs.String("out", "", "write JSON here instead of stdout")
	witnesses := fs.Int("witnesses", 8, "path witnesses (model + observations) kept per entry")
	verbose := fs.Bool("v", false, "verbose")
	relax := fs.Bool("relaxtrunc", false, "over-approximate float->int truncation by a real in (x-1,x] (integrality dropped)")
	patience := fs.Int("patience", 3000, "ms the incremental primary solver gets before the query goes to the one-shot portfolio")
	budget := fs.Int("budget", 600, "wall-clock budget per entry in seconds (0 = none); exceeding it truncates the exploration")
	freeSched := fs.Bool("freesched", false, "free choice of the next thread at blocking points (default: delay-bounded round-robin)")
	thorough := fs.Bool("thorough", false, "thorough tier (vThorough() is true)")
	maxTimers := fs.Int("maxtimers", 6, "bound on timer/ticker firings per path")
	knownS := fs.String("known", "", "comma-separated ids of open known findings (vKnown)")
	seed := fs.Int("seed", 0, "solver random seed")
	cpuprof := fs.String("cpuprofile", "", "write CPU profile")
	fs.Parse(args)
	if *cpuprof != "" {
		f, _ := os.Create(*cpuprof)
		pprof.StartCPUProfile(f)
		defer pprof.StopCPUProfile()
	}

	t0 := time.Now()
	var hfiles []string
	if *harness != "" {
		hfiles = strings.Split(*harness, ",")
	}
	var extras []string
	if *extra != "" {
		extras = strings.Split(*extra, ",")
	}
	prog, mainPkg, err := loadProgram(*dir, *pkg, hfiles, extras)
	if err != nil {
		fmt.Fprintln(os.Stderr, "load failed:", err)
		os.Exit(3)
	}
	loadS := time.Since(t0).Seconds()
	// environment stubs written in the harness: a harness function vStub_<name> replaces the
	// function whose full name, with every non-alphanumeric rune turned into '_', is <name>
	// (e.g. vStub___net_http_Transport__RoundTrip for (*net/http.Transport).RoundTrip)
	harnessStubs = map[string]*ssa.Function{}
	for name, mem := range mainPkg.Members {
		if f, ok := mem.(*ssa.Function); ok && strings.HasPrefix(name, "vStub_") {
			harnessStubs[strings.TrimPrefix(name, "vStub_")] = f
		}
	}
	var results []*EntryResult
	for _, entry := range strings.Split(*entries, ",") {
		fn := mainPkg.Func(entry)
		if fn == nil {
			fmt.Fprintln(os.Stderr, "no such entry:", entry)
			os.Exit(3)
		}
		cfg := Config{Harness: entry, MaxPaths: *maxPaths, UnwindLimit: *unwind, Preempt: *preempt, StepLimit: *steps,
			Workers: *workers, SolverBin: *solver, Fallback: splitNE(*fallback), QueryMs: *queryMs, MaxViol: *maxViol, KeepScripts: *cross != "", Witnesses: *witnesses, RelaxTrunc: *relax, PatienceMs: *patience, BudgetS: *budget, FreeSched: *freeSched, Thorough: *thorough, MaxTimerFires: *maxTimers, Known: splitNE(*knownS), Seed: *seed, Verbose: *verbose}
		eng := &Engine{prog: prog, cfg: cfg, res: NewResults(), entry: fn}
		t1 := time.Now()
		eng.Run()
		r := eng.res
		er := &EntryResult{Entry: entry, Paths: r.Paths, Instrs: r.Instrs, Queries: r.Queries, SolverS: r.SolverTime.Seconds(),
			WallS: time.Since(t1).Seconds(), Outcomes: r.Outcomes, OutcomeMsg: r.OutcomeMsg, Checks: r.Checks,
			Violations: r.Violations, Funcs: sortedKeys(r.Funcs), Stubs: r.Stubs, Samples: r.Samples, MaxDepth: r.MaxDepth,
			Truncated: eng.stopped, Witnesses: r.Witnesses}
		if *cross != "" {
			er.Cross = map[string]int{}
			for _, bin := range strings.Split(*cross, ",") {
				for _, sc := range r.CrossCheck {
					ans, _ := RunOneShot(bin, sc, 20)
					if strings.HasPrefix(ans, "error") {
						ans = "error"
					}
					er.Cross[bin+":"+ans]++
				}
			}
		}
		results = append(results, er)
	}
	doc := map[string]interface{}{"load_s": loadS, "results": results, "wall_s": time.Since(t0).Seconds()}
	b, _ := json.MarshalIndent(doc, "", " ")
	if *out != "" {
		os.WriteFile(*out, b, 0o644)
	} else {
		os.Stdout.Write(b)
		fmt.Println()
	}
}

var _ = sort.Strings

func splitNE(s string) []string {
	if s == "" {
		return nil
	}
	return strings.Split(s, ",")
}
