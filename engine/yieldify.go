package main

// rewrite: produces an instrumented copy of a Go source file for native replay only (the
// copy is generated from the current tree and supplied to `go test` by -overlay):
//   -now    every call time.Now() becomes zzverifhook.Now()   (deterministic replay clock)
//   -yield  every statement is preceded by zzverifhook.Yield() (scheduler perturbation), and
//           every niladic x.Load() call becomes zzverifhook.After(x.Load()): a yield right after
//           an atomic read, i.e. inside read-modify-write expressions such as
//           c.Store(f(c.Load() + d))

import (
	"go/ast"
	"go/parser"
	"go/token"
	"os"
	"sort"

	"golang.org/x/tools/go/ast/astutil"
)

const hookPkg = "github.com/yandex/pandora/lib/zzverifhook"

// The instrumentation is done on the source text at the offsets found in the AST (insertions
// only), so that comments and layout cannot confuse a printer.
func rewriteFile(in, out string, doNow, doYield bool) error {
	src, err := os.ReadFile(in)
	if err != nil {
		return err
	}
	fset := token.NewFileSet()
	f, err := parser.ParseFile(fset, in, src, parser.ParseComments)
	if err != nil {
		return err
	}
	type edit struct {
		off, del int
		ins      string
		seq      int
	}
	var edits []edit
	off := func(p token.Pos) int { return fset.Position(p).Offset }
	add := func(o, del int, ins string) { edits = append(edits, edit{o, del, ins, len(edits)}) }
	timeName := ""
	for _, imp := range f.Imports {
		if imp.Path.Value == `"time"` {
			timeName = "time"
			if imp.Name != nil {
				timeName = imp.Name.Name
			}
		}
	}
	if doNow && timeName != "" {
		ast.Inspect(f, func(n ast.Node) bool {
			if call, ok := n.(*ast.CallExpr); ok && len(call.Args) == 0 {
				if sel, ok := call.Fun.(*ast.SelectorExpr); ok && sel.Sel.Name == "Now" {
					if id, ok := sel.X.(*ast.Ident); ok && id.Name == timeName && id.Obj == nil {
						add(off(id.Pos()), len(id.Name), "zzverifhook")
					}
				}
			}
			return true
		})
	}
	if doYield {
		astutil.Apply(f, func(c *astutil.Cursor) bool {
			if call, ok := c.Node().(*ast.CallExpr); ok && len(call.Args) == 0 {
				if sel, ok := call.Fun.(*ast.SelectorExpr); ok && sel.Sel.Name == "Load" {
					if _, isStmt := c.Parent().(*ast.ExprStmt); !isStmt {
						add(off(call.Pos()), 0, "zzverifhook.After(")
						add(off(call.End()), 0, ")")
						return false
					}
				}
			}
			return true
		}, nil)
		hookList := func(list []ast.Stmt) {
			for _, st := range list {
				switch st.(type) {
				case *ast.CaseClause, *ast.CommClause:
					continue // (the body of a switch/select: its clauses are instrumented, not preceded)
				}
				add(off(st.Pos()), 0, "zzverifhook.Yield(); ")
			}
		}
		ast.Inspect(f, func(n ast.Node) bool {
			switch n := n.(type) {
			case *ast.BlockStmt:
				hookList(n.List)
			case *ast.CaseClause:
				hookList(n.Body)
			case *ast.CommClause:
				hookList(n.Body)
			}
			return true
		})
	}
	if len(edits) > 0 {
		// the hook import right after the package clause (its own declaration)
		add(off(f.Name.End()), 0, "; import \"" + hookPkg + "\"")
	}
	// apply from the end of the file; edits at the same offset keep their order of creation
	sort.SliceStable(edits, func(i, j int) bool {
		if edits[i].off != edits[j].off {
			return edits[i].off > edits[j].off
		}
		return edits[i].seq > edits[j].seq
	})
	outb := append([]byte{}, src...)
	for _, e := range edits {
		outb = append(outb[:e.off], append([]byte(e.ins), outb[e.off+e.del:]...)...)
	}
	if timeName != "" {
		// the time import may have lost its last use
		outb = append(outb, []byte("\nvar _ "+timeName+".Duration\n")...)
	}
	return os.WriteFile(out, outb, 0o644)
}
