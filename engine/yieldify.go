package main

// rewrite: produces an instrumented copy of a Go source file for native replay only (the
// copy is generated from the current tree and supplied to `go test` by -overlay):
//   -now    every call time.Now() becomes zzverifhook.Now()   (deterministic replay clock)
//   -yield  every statement is preceded by zzverifhook.Yield() (scheduler perturbation), and
//           every niladic x.Load() call becomes zzverifhook.After(x.Load()): a yield right after
//           an atomic read, i.e. inside read-modify-write expressions such as
//           c.Store(f(c.Load() + d))

import (
	"bytes"
	"go/ast"
	"go/format"
	"go/parser"
	"go/token"
	"os"

	"golang.org/x/tools/go/ast/astutil"
)

const hookPkg = "github.com/yandex/pandora/lib/zzverifhook"

func rewriteFile(in, out string, doNow, doYield bool) error {
	fset := token.NewFileSet()
	f, err := parser.ParseFile(fset, in, nil, parser.ParseComments)
	if err != nil {
		return err
	}
	used := false
	if doNow {
		timeName := ""
		for _, imp := range f.Imports {
			if imp.Path.Value == `"time"` {
				timeName = "time"
				if imp.Name != nil {
					timeName = imp.Name.Name
				}
			}
		}
		if timeName != "" {
			astutil.Apply(f, func(c *astutil.Cursor) bool {
				if call, ok := c.Node().(*ast.CallExpr); ok && len(call.Args) == 0 {
					if sel, ok := call.Fun.(*ast.SelectorExpr); ok && sel.Sel.Name == "Now" {
						if id, ok := sel.X.(*ast.Ident); ok && id.Name == timeName && id.Obj == nil {
							sel.X = ast.NewIdent("zzverifhook")
							used = true
						}
					}
				}
				return true
			}, nil)
		}
	}
	if doYield {
		astutil.Apply(f, func(c *astutil.Cursor) bool {
			if call, ok := c.Node().(*ast.CallExpr); ok && len(call.Args) == 0 {
				if sel, ok := call.Fun.(*ast.SelectorExpr); ok && sel.Sel.Name == "Load" {
					if _, isStmt := c.Parent().(*ast.ExprStmt); !isStmt {
						c.Replace(&ast.CallExpr{Fun: &ast.SelectorExpr{X: ast.NewIdent("zzverifhook"), Sel: ast.NewIdent("After")}, Args: []ast.Expr{call}})
						used = true
						return false
					}
				}
			}
			return true
		}, nil)
		hook := func() ast.Stmt {
			return &ast.ExprStmt{X: &ast.CallExpr{Fun: &ast.SelectorExpr{X: ast.NewIdent("zzverifhook"), Sel: ast.NewIdent("Yield")}}}
		}
		rewriteList := func(list []ast.Stmt) []ast.Stmt {
			var outl []ast.Stmt
			for _, s := range list {
				outl = append(outl, hook(), s)
				used = true
			}
			return outl
		}
		ast.Inspect(f, func(n ast.Node) bool {
			switch n := n.(type) {
			case *ast.BlockStmt:
				n.List = rewriteList(n.List)
			case *ast.CaseClause:
				n.Body = rewriteList(n.Body)
			case *ast.CommClause:
				n.Body = rewriteList(n.Body)
			}
			return true
		})
	}
	if used {
		astutil.AddImport(fset, f, hookPkg)
	}
	if !astutil.UsesImport(f, "time") {
		astutil.DeleteImport(fset, f, "time")
	}
	f.Comments = nil
	var buf bytes.Buffer
	if err := format.Node(&buf, fset, f); err != nil {
		return err
	}
	return os.WriteFile(out, buf.Bytes(), 0o644)
}
