package main

// yieldify: rewrites a Go source file so that every statement of every function body is
// preceded by a call to vYieldHook(). Used only for the native replay of interleaving
// counterexamples: the copy is generated from the current tree and supplied by -overlay.

import (
	"bytes"
	"go/ast"
	"go/format"
	"go/parser"
	"go/token"
	"os"
)

func yieldifyFile(in, out string) error {
	fset := token.NewFileSet()
	f, err := parser.ParseFile(fset, in, nil, parser.ParseComments)
	if err != nil {
		return err
	}
	hook := func() ast.Stmt {
		return &ast.ExprStmt{X: &ast.CallExpr{Fun: ast.NewIdent("vYieldHook")}}
	}
	var rewriteList func(list []ast.Stmt) []ast.Stmt
	rewriteList = func(list []ast.Stmt) []ast.Stmt {
		var outl []ast.Stmt
		for _, s := range list {
			outl = append(outl, hook(), s)
		}
		return outl
	}
	ast.Inspect(f, func(n ast.Node) bool {
		switch n := n.(type) {
		case *ast.BlockStmt:
			n.List = rewriteList(n.List)
		case *ast.CaseClause:
			n.Body = rewriteList(n.Body)
		case *ast.CommClause:
			n.Body = rewriteList(n.Body)
		}
		return true
	})
	// comments would be misplaced by the insertion; drop them (the copy is never read by people)
	f.Comments = nil
	var buf bytes.Buffer
	if err := format.Node(&buf, fset, f); err != nil {
		return err
	}
	return os.WriteFile(out, buf.Bytes(), 0o644)
}
