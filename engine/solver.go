package main

// Driver for one long-lived SMT solver process (z3 -in by default).

import (
	"bufio"
	"fmt"
	"io"
	"math/big"
	"os"
	"os/exec"
	"strings"
	"time"
)

type Solver struct {
	cmd      *exec.Cmd
	in       io.WriteCloser
	out      *bufio.Reader
	lines    chan string
	level    int
	nDef     int
	script   []string // commands issued at path level (level 1) since path start
	Queries  int
	Timeouts int
	Time     time.Duration
	Errors   []string
	bin      string
	timeout  int // ms per query
	seed     int
	logW     io.Writer
}

func NewSolver(bin string, timeoutMs int, seed int) (*Solver, error) {
	s := &Solver{bin: bin, timeout: timeoutMs, seed: seed}
	if err := s.start(); err != nil {
		return nil, err
	}
	return s, nil
}

func (s *Solver) start() error {
	var args []string
	switch {
	case strings.Contains(s.bin, "cvc5"):
		args = []string{"--incremental", "--lang=smt2", fmt.Sprintf("--tlimit-per=%d", s.timeout)}
	default:
		args = []string{"-in", fmt.Sprintf("-t:%d", s.timeout)}
	}
	s.cmd = exec.Command(s.bin, args...)
	in, err := s.cmd.StdinPipe()
	if err != nil {
		return err
	}
	out, err := s.cmd.StdoutPipe()
	if err != nil {
		return err
	}
	s.cmd.Stderr = s.cmd.Stdout
	if err := s.cmd.Start(); err != nil {
		return err
	}
	s.in = in
	if p := os.Getenv("GOSMT_LOG"); p != "" && s.logW == nil {
		f, _ := os.OpenFile(fmt.Sprintf("%s.%d", p, os.Getpid()), os.O_CREATE|os.O_WRONLY|os.O_APPEND, 0o644)
		s.logW = f
	}
	s.out = bufio.NewReaderSize(out, 1<<20)
	s.lines = make(chan string, 64)
	go func(r *bufio.Reader, ch chan string) {
		for {
			line, err := r.ReadString('\n')
			if err != nil {
				close(ch)
				return
			}
			ch <- strings.TrimSpace(line)
		}
	}(s.out, s.lines)
	s.level = 0
	if strings.Contains(s.bin, "cvc5") {
		s.send("(set-logic ALL)")
	}
	s.send("(set-option :produce-models true)")
	if s.seed != 0 && !strings.Contains(s.bin, "cvc5") {
		s.send(fmt.Sprintf("(set-option :smt.random_seed %d)", s.seed))
	}
	return nil
}

func (s *Solver) Close() {
	if s.in != nil {
		s.in.Close()
	}
	if s.cmd != nil && s.cmd.Process != nil {
		s.cmd.Process.Kill()
		s.cmd.Wait()
	}
}

func (s *Solver) send(line string) {
	if s.logW != nil {
		fmt.Fprintln(s.logW, line)
	}
	io.WriteString(s.in, line)
	io.WriteString(s.in, "\n")
}

// cmd1 issues a command at path level and records it in the path script.
func (s *Solver) cmd1(line string) {
	if s.level != 1 {
		panic("solver: declaration outside path level")
	}
	s.script = append(s.script, line)
	s.send(line)
}

func (s *Solver) BeginPath() {
	if s.level != 0 {
		panic("BeginPath at level != 0")
	}
	s.send("(push 1)")
	s.level = 1
	s.script = s.script[:0]
	s.nDef = 0
}

func (s *Solver) EndPath() {
	for s.level > 0 {
		s.send("(pop 1)")
		s.level--
	}
}

func (s *Solver) Declare(t *Term) {
	s.cmd1(fmt.Sprintf("(declare-const %s %s)", t.name, t.sort))
	if t.sort == SInt {
		if t.lo != nil {
			s.cmd1(fmt.Sprintf("(assert (>= %s %s))", t.name, smtInt(t.lo)))
		}
		if t.hi != nil {
			s.cmd1(fmt.Sprintf("(assert (<= %s %s))", t.name, smtInt(t.hi)))
		}
	}
	if t.sort == SReal {
		if t.lo != nil {
			s.cmd1(fmt.Sprintf("(assert (>= %s %s))", t.name, smtRat(new(big.Rat).SetInt(t.lo))))
		}
		if t.hi != nil {
			s.cmd1(fmt.Sprintf("(assert (<= %s %s))", t.name, smtRat(new(big.Rat).SetInt(t.hi))))
		}
	}
}

// Text returns SMT text for t, emitting define-funs for large shared subterms.
func (s *Solver) Text(t *Term) string {
	if t.str != "" {
		return t.str
	}
	switch t.op {
	case "c", "v":
		return t.String()
	case "inf", "nan", "poison":
		panic(pathAbort{"unsupported", "special float value reached the solver: " + t.op})
	}
	var sb strings.Builder
	sb.WriteByte('(')
	sb.WriteString(t.op)
	for _, a := range t.args {
		sb.WriteByte(' ')
		sb.WriteString(s.Text(a))
	}
	sb.WriteByte(')')
	str := sb.String()
	isBV := (strings.HasPrefix(t.op, "bv") && t.op != "bv2nat") || strings.HasPrefix(t.op, "(_ int2bv")
	if len(str) > 120 && !isBV {
		if s.level != 1 {
			panic("solver: define outside path level")
		}
		s.nDef++
		name := fmt.Sprintf("dd$%d", s.nDef)
		s.cmd1(fmt.Sprintf("(define-fun %s () %s %s)", name, t.sort, str))
		str = name
	}
	t.str = str
	return str
}

func (s *Solver) Assert(t *Term) {
	s.cmd1("(assert " + s.Text(t) + ")")
}

type SatResult int

const (
	Unsat SatResult = iota
	Sat
	Unknown
)

func (r SatResult) String() string { return [...]string{"unsat", "sat", "unknown"}[r] }

func (s *Solver) readLine() string {
	// hard watchdog: the solver's own soft timeout is not always honoured (nlsat)
	limit := time.Duration(s.timeout)*time.Millisecond + 1500*time.Millisecond
	select {
	case line, ok := <-s.lines:
		if !ok {
			s.Close()
			s.cmd = nil
			panic(pathAbort{"solver-unknown", "solver process died"})
		}
		return line
	case <-time.After(limit):
		s.Close()
		s.cmd = nil
		panic(solverTimeout{})
	}
}

type solverTimeout struct{}

// restartReplay starts a fresh solver process and replays the path-level script, so that the
// path can continue after a query had to be killed.
func (s *Solver) restartReplay() {
	s.Close()
	if err := s.start(); err != nil {
		panic(pathAbort{"solver-unknown", "cannot restart solver: " + err.Error()})
	}
	s.send("(push 1)")
	s.level = 1
	for _, l := range s.script {
		s.send(l)
	}
}

// CheckWith decides satisfiability of (path condition AND extra...). If wantModel != nil
// and the result is sat, the values of the given variable names are returned.
func (s *Solver) CheckWith(extra []*Term, wantModel []string) (res SatResult, model map[string]string) {
	defer func() {
		if r := recover(); r != nil {
			if _, ok := r.(solverTimeout); ok {
				s.Timeouts++
				s.restartReplay()
				res, model = Unknown, nil
				return
			}
			panic(r)
		}
	}()
	return s.checkWith(extra, wantModel)
}

func (s *Solver) checkWith(extra []*Term, wantModel []string) (SatResult, map[string]string) {
	texts := make([]string, len(extra))
	for i, e := range extra {
		texts[i] = s.Text(e)
	}
	t0 := time.Now()
	s.send("(push 1)")
	for _, t := range texts {
		s.send("(assert " + t + ")")
	}
	s.send("(check-sat)")
	s.Queries++
	var res SatResult
	for {
		line := s.readLine()
		if line == "" {
			continue
		}
		switch {
		case line == "sat":
			res = Sat
		case line == "unsat":
			res = Unsat
		case line == "unknown" || line == "timeout":
			res = Unknown
		case strings.HasPrefix(line, "(error"):
			s.Errors = append(s.Errors, line)
			continue
		default:
			s.Errors = append(s.Errors, "unexpected: "+line)
			continue
		}
		break
	}
	var model map[string]string
	if res == Sat && len(wantModel) > 0 {
		model = s.getValues(wantModel)
	}
	s.send("(pop 1)")
	s.Time += time.Since(t0)
	if s.logW != nil {
		fmt.Fprintf(s.logW, "; -> %s in %.3fs\n", res, time.Since(t0).Seconds())
	}
	if len(s.Errors) > 0 {
		// any error line makes the answer inconclusive
		errs := strings.Join(s.Errors, "; ")
		s.Errors = nil
		panic(pathAbort{"solver-error", errs})
	}
	return res, model
}

func (s *Solver) getValues(names []string) map[string]string {
	model := map[string]string{}
	// chunk to keep lines manageable
	for i := 0; i < len(names); i += 50 {
		j := i + 50
		if j > len(names) {
			j = len(names)
		}
		s.send("(get-value (" + strings.Join(names[i:j], " ") + "))")
		txt := s.readSexp()
		parseValuesPos(txt, names[i:j], model)
	}
	return model
}

// readSexp reads one balanced s-expression from the solver output.
func (s *Solver) readSexp() string {
	var sb strings.Builder
	depth := 0
	started := false
	for {
		line := s.readLine()
		if strings.HasPrefix(line, "(error") {
			s.Errors = append(s.Errors, line)
			return ""
		}
		sb.WriteString(line)
		sb.WriteByte(' ')
		for _, c := range line {
			if c == '(' {
				depth++
				started = true
			} else if c == ')' {
				depth--
			}
		}
		if started && depth <= 0 {
			break
		}
	}
	return sb.String()
}

// ---- tiny s-expression parser for (get-value) answers ----

type sexp struct {
	atom string
	list []*sexp
}

func parseSexp(s string, pos *int) *sexp {
	for *pos < len(s) && (s[*pos] == ' ' || s[*pos] == '\n' || s[*pos] == '\t') {
		*pos++
	}
	if *pos >= len(s) {
		return nil
	}
	if s[*pos] == '(' {
		*pos++
		e := &sexp{list: []*sexp{}}
		for {
			for *pos < len(s) && (s[*pos] == ' ' || s[*pos] == '\n' || s[*pos] == '\t') {
				*pos++
			}
			if *pos >= len(s) {
				return e
			}
			if s[*pos] == ')' {
				*pos++
				return e
			}
			e.list = append(e.list, parseSexp(s, pos))
		}
	}
	st := *pos
	if s[*pos] == '|' {
		*pos++
		for *pos < len(s) && s[*pos] != '|' {
			*pos++
		}
		*pos++
		return &sexp{atom: s[st:*pos]}
	}
	for *pos < len(s) && s[*pos] != ' ' && s[*pos] != ')' && s[*pos] != '(' && s[*pos] != '\n' {
		*pos++
	}
	return &sexp{atom: s[st:*pos]}
}

func (e *sexp) isAtom() bool { return e.list == nil }

// evalNum evaluates a numeric model value to a rational.
func evalNum(e *sexp) (*big.Rat, bool) {
	if e.isAtom() {
		a := e.atom
		if a == "true" || a == "false" {
			return nil, false
		}
		a = strings.TrimSuffix(a, "?")
		r, ok := new(big.Rat).SetString(a)
		return r, ok
	}
	if len(e.list) == 0 {
		return nil, false
	}
	head := e.list[0]
	if !head.isAtom() {
		return nil, false
	}
	switch head.atom {
	case "-":
		if len(e.list) == 2 {
			r, ok := evalNum(e.list[1])
			if !ok {
				return nil, false
			}
			return r.Neg(r), true
		}
		a, ok1 := evalNum(e.list[1])
		b, ok2 := evalNum(e.list[2])
		if !ok1 || !ok2 {
			return nil, false
		}
		return a.Sub(a, b), true
	case "/":
		a, ok1 := evalNum(e.list[1])
		b, ok2 := evalNum(e.list[2])
		if !ok1 || !ok2 || b.Sign() == 0 {
			return nil, false
		}
		return a.Quo(a, b), true
	case "+":
		a, ok1 := evalNum(e.list[1])
		b, ok2 := evalNum(e.list[2])
		if !ok1 || !ok2 {
			return nil, false
		}
		return a.Add(a, b), true
	case "*":
		a, ok1 := evalNum(e.list[1])
		b, ok2 := evalNum(e.list[2])
		if !ok1 || !ok2 {
			return nil, false
		}
		return a.Mul(a, b), true
	case "root-obj":
		// algebraic number: not representable as a rational; caller treats as approximate
		return nil, false
	}
	return nil, false
}

// parseValuesPos assigns the i-th answered pair to names[i] (solvers may reprint the term).
func parseValuesPos(txt string, names []string, model map[string]string) {
	pos := 0
	e := parseSexp(txt, &pos)
	if e == nil || e.isAtom() {
		return
	}
	for i, pair := range e.list {
		if i >= len(names) || pair.isAtom() || len(pair.list) != 2 {
			continue
		}
		v := pair.list[1]
		if v.isAtom() && (v.atom == "true" || v.atom == "false") {
			model[names[i]] = v.atom
			continue
		}
		if r, ok := evalNum(v); ok {
			if r.IsInt() {
				model[names[i]] = r.Num().String()
			} else {
				model[names[i]] = r.String()
			}
			continue
		}
		model[names[i]] = "?" + sexpString(v)
	}
}

func parseValues(txt string, model map[string]string) {
	pos := 0
	e := parseSexp(txt, &pos)
	if e == nil || e.isAtom() {
		return
	}
	for _, pair := range e.list {
		if pair.isAtom() || len(pair.list) != 2 {
			continue
		}
		name := pair.list[0].atom
		v := pair.list[1]
		if v.isAtom() && (v.atom == "true" || v.atom == "false") {
			model[name] = v.atom
			continue
		}
		if r, ok := evalNum(v); ok {
			if r.IsInt() {
				model[name] = r.Num().String()
			} else {
				model[name] = r.String() // "a/b"
			}
			continue
		}
		model[name] = "?" + sexpString(v)
	}
}

func sexpString(e *sexp) string {
	if e.isAtom() {
		return e.atom
	}
	parts := make([]string, len(e.list))
	for i, x := range e.list {
		parts[i] = sexpString(x)
	}
	return "(" + strings.Join(parts, " ") + ")"
}

// Standalone returns a complete SMT-LIB script deciding pc AND extra, for cross-checking
// with other solvers.
func (s *Solver) Standalone(extra []*Term) string {
	var sb strings.Builder
	texts := make([]string, len(extra))
	for i, e := range extra {
		texts[i] = s.Text(e)
	}
	sb.WriteString("(set-logic ALL)\n")
	for _, l := range s.script {
		sb.WriteString(l)
		sb.WriteByte('\n')
	}
	for _, t := range texts {
		sb.WriteString("(assert " + t + ")\n")
	}
	sb.WriteString("(check-sat)\n")
	return sb.String()
}

// OneShotModel runs script (ending in check-sat) plus a get-value for names with another solver.
func OneShotModel(bin, script string, names []string, timeoutS int) (SatResult, map[string]string, time.Duration) {
	if len(names) > 0 {
		script += "(get-value (" + strings.Join(names, " ") + "))\n"
	}
	var args []string
	if strings.Contains(bin, "cvc5") {
		args = []string{"--lang=smt2", "--produce-models", fmt.Sprintf("--tlimit=%d", timeoutS*1000)}
	} else {
		args = []string{"-in", fmt.Sprintf("-T:%d", timeoutS)}
	}
	cmd := exec.Command(bin, args...)
	cmd.Stdin = strings.NewReader("(set-option :produce-models true)\n" + script)
	t0 := time.Now()
	done := make(chan struct{})
	var out []byte
	go func() { out, _ = cmd.CombinedOutput(); close(done) }()
	select {
	case <-done:
	case <-time.After(time.Duration(timeoutS+5) * time.Second):
		if cmd.Process != nil {
			cmd.Process.Kill()
		}
		<-done
	}
	d := time.Since(t0)
	txt := string(out)
	lines := strings.SplitN(strings.TrimSpace(txt), "\n", 2)
	first := strings.TrimSpace(lines[0])
	switch first {
	case "unsat":
		if strings.Contains(txt, "(error") && !strings.Contains(txt, "model is not available") {
			return Unknown, nil, d
		}
		return Unsat, nil, d
	case "sat":
		model := map[string]string{}
		if len(lines) > 1 {
			if strings.Contains(lines[1], "(error") {
				return Unknown, nil, d
			}
			parseValuesPos(lines[1], names, model)
		}
		return Sat, model, d
	}
	return Unknown, nil, d
}

// RunOneShot runs a standalone script with another solver binary.
func RunOneShot(bin string, script string, timeoutS int) (string, time.Duration) {
	var args []string
	if strings.Contains(bin, "cvc5") {
		args = []string{"--lang=smt2", fmt.Sprintf("--tlimit=%d", timeoutS*1000)}
	} else {
		args = []string{"-in", fmt.Sprintf("-T:%d", timeoutS)}
	}
	cmd := exec.Command(bin, args...)
	cmd.Stdin = strings.NewReader(script)
	t0 := time.Now()
	out, _ := cmd.CombinedOutput()
	d := time.Since(t0)
	txt := strings.TrimSpace(string(out))
	if strings.Contains(txt, "(error") {
		return "error: " + txt, d
	}
	lines := strings.Split(txt, "\n")
	last := strings.TrimSpace(lines[len(lines)-1])
	switch last {
	case "sat", "unsat", "unknown", "timeout":
		return last, d
	}
	if strings.Contains(txt, "timeout") || strings.Contains(txt, "interrupted") {
		return "timeout", d
	}
	return "error: " + txt, d
}
