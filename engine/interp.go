package main

// SSA interpreter core: frames, instruction dispatch, calls, defer/panic/recover.
// Structure follows golang.org/x/tools/go/ssa/interp, with symbolic values.

import (
	"fmt"
	"go/constant"
	"go/token"
	"go/types"
	"math/big"
	"strings"
	"sync"

	"golang.org/x/tools/go/ssa"
)

type deferred struct {
	fn    Value
	args  []Value
	instr *ssa.Defer
	tail  *deferred
}

type frame struct {
	m                *Machine
	caller           *frame
	fn               *ssa.Function
	block, prevBlock *ssa.BasicBlock
	env              map[ssa.Value]Value
	locals           []Value
	defers           *deferred
	result           Value
	panicking        bool
	panicV           interface{}
	visits           map[*ssa.BasicBlock]int
	callPos          token.Pos
}

func (fr *frame) get(key ssa.Value) Value {
	switch key := key.(type) {
	case nil:
		return nil
	case *ssa.Function:
		return key
	case *ssa.Builtin:
		return key
	case *ssa.Const:
		return constValue(key)
	case *ssa.Global:
		return fr.m.globalAddr(key)
	}
	if r, ok := fr.env[key]; ok {
		return r
	}
	panic(pathAbort{"engine-error", fmt.Sprintf("get: no value for %T %s in %s", key, key.Name(), fr.fn)})
}

func constValue(c *ssa.Const) Value {
	if c.Value == nil {
		return zero(c.Type())
	}
	t := c.Type().Underlying()
	if b, ok := t.(*types.Basic); ok {
		switch {
		case b.Info()&types.IsBoolean != 0:
			return mkBool(constant.BoolVal(c.Value))
		case b.Info()&types.IsInteger != 0:
			v := constant.ToInt(c.Value)
			if i, ok := constant.Int64Val(v); ok {
				return mkInt64(i)
			}
			bi, _ := new(big.Int).SetString(v.ExactString(), 10)
			return mkInt(bi)
		case b.Info()&types.IsFloat != 0:
			// exact value rounded to float64 as the compiler does
			f, _ := constant.Float64Val(c.Value)
			return mkRealF(f)
		case b.Info()&types.IsString != 0:
			if c.Value.Kind() == constant.String {
				return Str{s: constant.StringVal(c.Value)}
			}
			// rune/int constant converted to string
			i, _ := constant.Int64Val(constant.ToInt(c.Value))
			return Str{s: string(rune(i))}
		case b.Info()&types.IsComplex != 0:
			return poisonV{"complex"}
		}
	}
	if _, ok := t.(*types.TypeParam); ok {
		panic(pathAbort{"unsupported", "constant of type parameter type"})
	}
	panic(pathAbort{"unsupported", fmt.Sprintf("constValue: %v", c)})
}

func (m *Machine) rtPanic(msg string) {
	// where the runtime fault arises (for the violation note only; the panic value is Go's)
	if m.curInstr != nil && m.curFn != nil {
		m.faultPos = fmt.Sprintf("%s at %s", m.curFn.String(), m.eng.prog.Fset.Position(m.curInstr.Pos()))
	}
	rt := m.eng.prog.ImportedPackage("runtime")
	var T types.Type
	if rt != nil {
		if ty := rt.Type("errorString"); ty != nil {
			T = ty.Type()
		}
	}
	panic(targetPanic{Iface{T: T, V: Str{s: msg}}})
}

// fault forks on a runtime-fault condition; on the faulting side the program panics.
func (m *Machine) fault(cond *Term, msg string) {
	if m.branch(cond) {
		m.rtPanic(msg)
	}
}

func (fr *frame) runDefer(d *deferred) {
	var ok bool
	defer func() {
		if !ok {
			r := recover()
			if pa, isAbort := r.(pathAbort); isAbort {
				panic(pa)
			}
			if _, isTP := r.(targetPanic); !isTP {
				panic(r)
			}
			fr.panicking = true
			fr.panicV = r
		}
	}()
	fr.m.call(fr, d.instr.Pos(), d.fn, d.args, nil)
	ok = true
}

func (fr *frame) runDefers() {
	for d := fr.defers; d != nil; d = d.tail {
		fr.runDefer(d)
	}
	fr.defers = nil
	if fr.panicking {
		panic(fr.panicV)
	}
}

func deref(t types.Type) types.Type {
	if p, ok := t.Underlying().(*types.Pointer); ok {
		return p.Elem()
	}
	panic("deref of non-pointer " + t.String())
}

type continuation int

const (
	kNext continuation = iota
	kReturn
	kJump
)

func (m *Machine) visitInstr(fr *frame, instr ssa.Instruction) continuation {
	m.steps++
	if m.steps&4095 == 0 && m.eng.budgetHit && m.inInit == 0 {
		// the wall-clock budget also ends the path being executed
		panic(pathAbort{"budget", "wall-clock budget exhausted"})
	}
	if m.eng.cfg.StepLimit > 0 && m.steps > m.eng.cfg.StepLimit {
		panic(pathAbort{"unwind", "step limit exceeded"})
	}
	switch instr := instr.(type) {
	case *ssa.DebugRef:

	case *ssa.UnOp:
		fr.env[instr] = m.unop(fr, instr, fr.get(instr.X))

	case *ssa.BinOp:
		fr.env[instr] = m.binop(instr.Op, instr.X.Type(), fr.get(instr.X), fr.get(instr.Y))

	case *ssa.Call:
		fn, args := m.prepareCall(fr, &instr.Call)
		fr.env[instr] = m.call(fr, instr.Pos(), fn, args, instr)

	case *ssa.ChangeInterface:
		fr.env[instr] = fr.get(instr.X)

	case *ssa.ChangeType:
		fr.env[instr] = fr.get(instr.X)

	case *ssa.Convert:
		fr.env[instr] = m.conv(instr.Type(), instr.X.Type(), fr.get(instr.X))

	case *ssa.MultiConvert:
		fr.env[instr] = m.conv(instr.Type(), instr.X.Type(), fr.get(instr.X))

	case *ssa.SliceToArrayPointer:
		// (*[N]T)(s): a pointer to an array that aliases the slice's backing store
		sv, _ := fr.get(instr.X).(sliceV)
		n := int(instr.Type().Underlying().(*types.Pointer).Elem().Underlying().(*types.Array).Len())
		if n > sv.len {
			m.rtPanic("cannot convert slice to array pointer: slice too short")
		}
		if sv.nil && n == 0 {
			fr.env[instr] = (*Value)(nil)
		} else {
			var cell Value = arrayV(sv.a[sv.off : sv.off+n : sv.off+n])
			fr.env[instr] = &cell
		}

	case *ssa.MakeInterface:
		fr.env[instr] = Iface{T: instr.X.Type(), V: copyVal(fr.get(instr.X))}

	case *ssa.Extract:
		fr.env[instr] = fr.get(instr.Tuple).(tuple)[instr.Index]

	case *ssa.Slice:
		fr.env[instr] = m.slice(instr, fr.get(instr.X), fr.get(instr.Low), fr.get(instr.High), fr.get(instr.Max))

	case *ssa.Return:
		switch len(instr.Results) {
		case 0:
		case 1:
			fr.result = fr.get(instr.Results[0])
		default:
			var res tuple
			for _, r := range instr.Results {
				res = append(res, fr.get(r))
			}
			fr.result = res
		}
		fr.block = nil
		return kReturn

	case *ssa.RunDefers:
		fr.runDefers()

	case *ssa.Panic:
		panic(targetPanic{fr.get(instr.X)})

	case *ssa.Send:
		m.chanSend(fr.get(instr.Chan).(*ChanV), fr.get(instr.X))

	case *ssa.Store:
		if sp, ok := fr.get(instr.Addr).(*symPtr); ok {
			m.storeSym(sp, fr.get(instr.Val))
			break
		}
		addr := fr.get(instr.Addr).(*Value)
		if addr == nil {
			m.rtPanic("invalid memory address or nil pointer dereference")
		}
		m.noteAccess(addr, true)
		store(addr, fr.get(instr.Val))

	case *ssa.If:
		c, ok := fr.get(instr.Cond).(*Term)
		if !ok {
			m.unsupported("If on non-term condition")
		}
		succ := 1
		if m.branch(c) {
			succ = 0
		}
		fr.prevBlock, fr.block = fr.block, fr.block.Succs[succ]
		return kJump

	case *ssa.Jump:
		fr.prevBlock, fr.block = fr.block, fr.block.Succs[0]
		return kJump

	case *ssa.Defer:
		fn, args := m.prepareCall(fr, &instr.Call)
		if instr.DeferStack != nil {
			m.unsupported("defer with explicit DeferStack")
		}
		fr.defers = &deferred{fn: fn, args: args, instr: instr, tail: fr.defers}

	case *ssa.Go:
		fn, args := m.prepareCall(fr, &instr.Call)
		m.spawn(fr, instr, fn, args)

	case *ssa.MakeChan:
		n := m.concretize(fr.get(instr.Size).(*Term), "chan size")
		fr.env[instr] = m.newChan(int(n))

	case *ssa.Alloc:
		var addr *Value
		if instr.Heap {
			addr = new(Value)
			fr.env[instr] = addr
		} else {
			addr = fr.env[instr].(*Value)
		}
		*addr = zero(deref(instr.Type()))

	case *ssa.MakeSlice:
		lt := fr.get(instr.Len).(*Term)
		ct := fr.get(instr.Cap).(*Term)
		if !lt.IsConst() {
			m.fault(tOr(tCmp("<", lt, mkInt64(0)), tCmp(">", lt, mkInt64(1<<47))), "makeslice: len out of range")
		}
		if !ct.IsConst() {
			m.fault(tOr(tCmp("<", ct, lt), tCmp(">", ct, mkInt64(1<<47))), "makeslice: cap out of range")
		}
		l := m.concretize(lt, "makeslice len")
		c := m.concretize(ct, "makeslice cap")
		if l < 0 || l > 1<<47 {
			m.rtPanic("makeslice: len out of range")
		}
		if c < l {
			m.rtPanic("makeslice: cap out of range")
		}
		if c > 1<<22 {
			m.unsupported("makeslice: %d elements is beyond the executor's allocation bound", c)
		}
		a := make([]Value, c)
		tElt := instr.Type().Underlying().(*types.Slice).Elem()
		z := zero(tElt)
		for i := range a {
			a[i] = copyVal(z)
		}
		fr.env[instr] = sliceV{a: a, off: 0, len: int(l), cap: int(c)}

	case *ssa.MakeMap:
		fr.env[instr] = &MapV{conc: map[string]*mapEntry{}}

	case *ssa.Range:
		fr.env[instr] = m.rangeIter(fr.get(instr.X), instr.X.Type())

	case *ssa.Next:
		fr.env[instr] = fr.get(instr.Iter).(iterator).next(m)

	case *ssa.FieldAddr:
		p := fr.get(instr.X).(*Value)
		if p == nil {
			m.rtPanic("invalid memory address or nil pointer dereference")
		}
		fr.env[instr] = &(*p).(structV)[instr.Field]

	case *ssa.Field:
		fr.env[instr] = copyVal(fr.get(instr.X).(structV)[instr.Field])

	case *ssa.IndexAddr:
		fr.env[instr] = m.indexAddr(fr.get(instr.X), fr.get(instr.Index).(*Term))

	case *ssa.Index:
		fr.env[instr] = m.index(fr.get(instr.X), fr.get(instr.Index).(*Term))

	case *ssa.Lookup:
		fr.env[instr] = m.lookup(instr, fr.get(instr.X), fr.get(instr.Index))

	case *ssa.MapUpdate:
		mv := fr.get(instr.Map).(*MapV)
		if mv == nil {
			m.rtPanic("assignment to entry in nil map")
		}
		m.mapUpdate(mv, fr.get(instr.Key), fr.get(instr.Value))

	case *ssa.TypeAssert:
		fr.env[instr] = m.typeAssert(instr, fr.get(instr.X))

	case *ssa.MakeClosure:
		var bindings []Value
		for _, b := range instr.Bindings {
			bindings = append(bindings, fr.get(b))
		}
		fr.env[instr] = &Closure{instr.Fn.(*ssa.Function), bindings}

	case *ssa.Phi:
		panic("unreachable: phi")

	case *ssa.Select:
		fr.env[instr] = m.selectInstr(fr, instr)

	default:
		m.unsupported("instruction %T", instr)
	}
	return kNext
}

// store writes v into *addr, element-wise for aggregates so that interior pointers stay valid.
func store(addr *Value, v Value) {
	switch lhs := (*addr).(type) {
	case structV:
		if rhs, ok := v.(structV); ok && len(lhs) == len(rhs) {
			for i := range lhs {
				store(&lhs[i], rhs[i])
			}
			return
		}
	case arrayV:
		if rhs, ok := v.(arrayV); ok && len(lhs) == len(rhs) {
			for i := range lhs {
				store(&lhs[i], rhs[i])
			}
			return
		}
	}
	*addr = copyVal(v)
}

func (m *Machine) load(addr *Value) Value {
	if addr == nil {
		m.rtPanic("invalid memory address or nil pointer dereference")
	}
	m.noteAccess(addr, false)
	return copyVal(*addr)
}

func (m *Machine) prepareCall(fr *frame, call *ssa.CallCommon) (fn Value, args []Value) {
	v := fr.get(call.Value)
	if call.Method == nil {
		fn = v
	} else {
		recv, ok := v.(Iface)
		if !ok {
			m.unsupported("invoke on %T", v)
		}
		if recv.T == nil {
			m.rtPanic("invalid memory address or nil pointer dereference (method on nil interface)")
		}
		if mf := m.modelMethod(recv, call.Method); mf != nil {
			fn = mf
		} else {
			f := m.eng.prog.LookupMethod(recv.T, call.Method.Pkg(), call.Method.Name())
			if f == nil {
				m.unsupported("method %s not found for %s", call.Method.Name(), recv.T)
			}
			fn = f
		}
		args = append(args, recv.V)
	}
	for _, a := range call.Args {
		args = append(args, fr.get(a))
	}
	return
}

// nativeFn is an intrinsic implemented by the engine.
type nativeFn struct {
	name string
	f    func(m *Machine, fr *frame, args []Value) Value
}

func (m *Machine) call(caller *frame, pos token.Pos, fn Value, args []Value, site *ssa.Call) Value {
	switch fn := fn.(type) {
	case *ssa.Function:
		if fn == nil {
			m.rtPanic("call of nil function")
		}
		return m.callSSA(caller, pos, fn, args, nil)
	case *Closure:
		if fn == nil {
			m.rtPanic("call of nil function")
		}
		return m.callSSA(caller, pos, fn.Fn, args, fn.Env)
	case *ssa.Builtin:
		return m.callBuiltin(caller, fn, args, site)
	case *nativeFn:
		m.stubs[fn.name]++
		return fn.f(m, caller, args)
	}
	m.unsupported("cannot call %T", fn)
	return nil
}

func fnName(fn *ssa.Function) string {
	if o := fn.Origin(); o != nil {
		return o.String()
	}
	return fn.String()
}

func (m *Machine) callSSA(caller *frame, pos token.Pos, fn *ssa.Function, args []Value, env []Value) Value {
	// a package initialiser calls the initialisers of the packages it imports: one of those giving up
	// (loop bound, unsupported construct) must not keep the importer's own variables from being
	// initialised - each nested initialiser fails on its own, as the top-level one does (runInit)
	if m.inInit > 0 && caller != nil && fn.Synthetic == "package initializer" && !m.nestedInit[fn] {
		if m.nestedInit == nil {
			m.nestedInit = map[*ssa.Function]bool{}
		}
		m.nestedInit[fn] = true
		func() {
			defer func() {
				delete(m.nestedInit, fn)
				if r := recover(); r != nil {
					if pa, ok := r.(pathAbort); ok && pa.kind == "killed" {
						panic(r)
					}
				}
			}()
			m.callSSA(caller, pos, fn, args, env)
		}()
		return nil
	}
	name := fnName(fn)
	// a stub written in the harness overrides the engine's own model of the function
	if len(harnessStubs) > 0 {
		if st := harnessStubs[sanitizeName(name)]; st != nil && st != fn {
			m.stubs[name+" (harness stub)"]++
			return m.callSSA(caller, pos, st, args, nil)
		}
	}
	if in, ok := intrinsics[name]; ok {
		m.stubs[name]++
		return in(m, caller, fn, args)
	}
	if pi := prefixIntrinsic(name); pi != nil {
		m.stubs[name]++
		return pi(m, caller, fn, args)
	}
	if fn.Blocks == nil {
		if fn.Pkg != nil {
			fn.Pkg.Build()
		}
		if fn.Blocks == nil {
			m.unsupported("no code for function %s", name)
		}
	}
	if fn.TypeParams().Len() > 0 && len(fn.TypeArgs()) == 0 {
		m.unsupported("uninstantiated generic %s", name)
	}
	if m.inInit == 0 {
		m.funcs[name] = true
	}
	depth := 0
	for f := caller; f != nil; f = f.caller {
		depth++
	}
	if depth > 400 {
		panic(pathAbort{"unwind", "call depth exceeded in " + name})
	}
	fr := &frame{m: m, caller: caller, fn: fn, callPos: pos}
	fr.env = make(map[ssa.Value]Value, 16)
	fr.block = fn.Blocks[0]
	fr.locals = make([]Value, len(fn.Locals))
	for i, l := range fn.Locals {
		fr.locals[i] = zero(deref(l.Type()))
		fr.env[l] = &fr.locals[i]
	}
	for i, p := range fn.Params {
		fr.env[p] = args[i]
	}
	for i, fv := range fn.FreeVars {
		fr.env[fv] = env[i]
	}
	for fr.block != nil {
		m.runFrame(fr)
	}
	return fr.result
}

func (m *Machine) runFrame(fr *frame) {
	defer func() {
		if fr.block == nil {
			return
		}
		r := recover()
		if _, ok := r.(targetPanic); !ok {
			// engine-level abort or engine bug: do not run program defers
			if r == nil {
				panic("runFrame: nil panic")
			}
			if _, isAbort := r.(pathAbort); !isAbort {
				pa := engineErrorFromPanic(r)
				pa.msg += " in " + fr.fn.String()
				panic(pa)
			}
			panic(r)
		}
		fr.panicking = true
		fr.panicV = r
		fr.runDefers()
		fr.block = fr.fn.Recover
		if fr.block == nil {
			// recovered in a function without named results: return zero values
			fr.result = zero(fr.fn.Signature.Results())
			if fr.fn.Signature.Results().Len() == 0 {
				fr.result = nil
			}
		}
	}()
	for {
		if fr.visits == nil {
			fr.visits = map[*ssa.BasicBlock]int{}
		}
		fr.visits[fr.block]++
		if fr.visits[fr.block] > m.eng.cfg.UnwindLimit {
			panic(pathAbort{"unwind", fmt.Sprintf("loop bound %d exceeded in %s block %d", m.eng.cfg.UnwindLimit, fr.fn, fr.block.Index)})
		}
		nonPhis := executePhis(fr)
		for _, instr := range nonPhis {
			if m.inInit > 0 {
				if m.tolerantInstr(fr, instr) == kNext {
					continue
				}
				if fr.block == nil {
					return
				}
				break
			}
			m.curInstr, m.curFn = instr, fr.fn
			c := m.visitInstr(fr, instr)
			if c == kReturn {
				return
			}
			if c == kJump {
				break
			}
		}
	}
}

// tolerantInstr executes one instruction during package initialisation; an unsupported
// construct poisons the instruction's result instead of aborting.
func (m *Machine) tolerantInstr(fr *frame, instr ssa.Instruction) (c continuation) {
	defer func() {
		if r := recover(); r != nil {
			if _, ok := r.(targetPanic); ok {
				panic(r)
			}
			if pa, ok := r.(pathAbort); ok && (pa.kind == "killed" || pa.kind == "unwind") {
				panic(r)
			}
			switch instr.(type) {
			case *ssa.If, *ssa.Jump, *ssa.Return:
				// cannot continue this function: return a poisoned result
				fr.block = nil
				fr.result = poisonV{fmt.Sprint(r)}
				c = kReturn
				return
			}
			if v, ok := instr.(ssa.Value); ok {
				var why string
				if pa, ok := r.(pathAbort); ok {
					why = pa.msg
				} else {
					why = fmt.Sprint(r)
				}
				if tt, ok := v.Type().(*types.Tuple); ok {
					tp := make(tuple, tt.Len())
					for i := range tp {
						tp[i] = poisonV{why}
					}
					fr.env[v] = tp
				} else {
					fr.env[v] = poisonV{why}
				}
			}
			c = kNext
		}
	}()
	return m.visitInstr(fr, instr)
}

func executePhis(fr *frame) []ssa.Instruction {
	firstNonPhi := -1
	for i, instr := range fr.block.Instrs {
		if _, ok := instr.(*ssa.Phi); !ok {
			firstNonPhi = i
			break
		}
	}
	nonPhis := fr.block.Instrs[firstNonPhi:]
	if firstNonPhi > 0 {
		phis := fr.block.Instrs[:firstNonPhi]
		predIndex := -1
		for i, p := range fr.block.Preds {
			if p == fr.prevBlock {
				predIndex = i
				break
			}
		}
		tmp := make([]Value, len(phis))
		for i, phi := range phis {
			tmp[i] = fr.get(phi.(*ssa.Phi).Edges[predIndex])
		}
		for i, phi := range phis {
			fr.env[phi.(*ssa.Phi)] = tmp[i]
		}
	}
	return nonPhis
}

func (m *Machine) doRecover(caller *frame) Value {
	if caller != nil && !caller.panicking && caller.caller != nil && caller.caller.panicking {
		caller.caller.panicking = false
		p := caller.caller.panicV
		caller.caller.panicV = nil
		if tp, ok := p.(targetPanic); ok {
			if iv, ok := tp.v.(Iface); ok {
				return iv
			}
			return Iface{T: types.Typ[types.String], V: tp.v}
		}
		panic(pathAbort{"engine-error", fmt.Sprintf("unexpected panic value %T in recover", p)})
	}
	return Iface{}
}

// ---------- globals and package initialisation ----------

func isStdlib(pkg *ssa.Package) bool {
	if pkg == nil {
		return true
	}
	p := pkg.Pkg.Path()
	first := p
	if i := strings.IndexByte(p, '/'); i >= 0 {
		first = p[:i]
	}
	return !strings.Contains(first, ".")
}

// Package-level variables are allocated and initialised once per machine (the package
// initialiser is interpreted tolerantly on first touch); for non-stdlib packages the values
// the globals had right after initialisation are restored at the start of every path.
func (m *Machine) globalAddr(g *ssa.Global) *Value {
	tab := m.sharedGlob
	if a, ok := tab[g]; ok {
		return a
	}
	pkg := g.Pkg
	for _, mem := range pkg.Members {
		if gg, ok := mem.(*ssa.Global); ok {
			if _, ok := tab[gg]; !ok {
				a := new(Value)
				*a = zero(deref(gg.Type()))
				tab[gg] = a
			}
		}
	}
	if !m.sharedInit[pkg] {
		m.sharedInit[pkg] = true
		m.runInit(pkg)
		if !isStdlib(pkg) {
			for _, mem := range pkg.Members {
				if gg, ok := mem.(*ssa.Global); ok {
					m.snap[gg] = copyVal(*tab[gg])
				}
			}
		}
	}
	return tab[g]
}

func (m *Machine) restoreGlobals() {
	for g, v := range m.snap {
		*m.sharedGlob[g] = copyVal(v)
	}
}

func (m *Machine) runInit(pkg *ssa.Package) {
	init := pkg.Func("init")
	if init == nil {
		return
	}
	pkg.Build()
	if init.Blocks == nil {
		return
	}
	if skipInit[pkg.Pkg.Path()] {
		return
	}
	m.inInit++
	savedSteps := m.steps
	defer func() {
		m.inInit--
		m.steps = savedSteps
		if r := recover(); r != nil {
			if pa, ok := r.(pathAbort); ok && pa.kind == "killed" {
				panic(r)
			}
			// init failed part-way: globals assigned so far stay, others are zero
		}
	}()
	m.callSSA(nil, token.NoPos, init, nil, nil)
}

// packages whose initialiser is not run at all (their globals stay zero)
var skipInit = map[string]bool{
	"runtime": true, "os": true, "syscall": true, "net": true, "crypto/tls": true,
	"reflect": true, "internal/poll": true, "internal/godebug": true, "log": true,
	"go.uber.org/zap": true, "go.uber.org/zap/zapcore": true, "expvar": true,
	"encoding/json": true, "github.com/json-iterator/go": true, "mime": true, "html": true,
	"golang.org/x/net/http2": true, "google.golang.org/grpc": true, "crypto/x509": true,
	"github.com/spf13/afero": true, "vendor/golang.org/x/net/idna": true, "golang.org/x/net/idna": true,
	"vendor/golang.org/x/text/unicode/norm": true, "golang.org/x/text/unicode/norm": true,
	"vendor/golang.org/x/text/unicode/bidi": true, "golang.org/x/text/unicode/bidi": true,
}

var harnessStubs map[string]*ssa.Function

var sanitized sync.Map

func sanitizeName(name string) string {
	if v, ok := sanitized.Load(name); ok {
		return v.(string)
	}
	b := []byte(name)
	for i, c := range b {
		if !(c >= 'a' && c <= 'z' || c >= 'A' && c <= 'Z' || c >= '0' && c <= '9') {
			b[i] = '_'
		}
	}
	sanitized.Store(name, string(b))
	return string(b)
}
