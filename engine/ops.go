package main

import (
	"fmt"
	"go/token"
	"go/types"
	"math/big"
	"unicode/utf8"

	"golang.org/x/tools/go/ssa"
)

// ---------- integer type info ----------

func intInfo(t types.Type) (bits uint, signed bool, ok bool) {
	b, isB := t.Underlying().(*types.Basic)
	if !isB || b.Info()&types.IsInteger == 0 {
		return 0, false, false
	}
	switch b.Kind() {
	case types.Int8:
		return 8, true, true
	case types.Int16:
		return 16, true, true
	case types.Int32:
		return 32, true, true
	case types.Int64, types.Int, types.UntypedInt, types.UntypedRune:
		return 64, true, true
	case types.Uint8:
		return 8, false, true
	case types.Uint16:
		return 16, false, true
	case types.Uint32:
		return 32, false, true
	case types.Uint64, types.Uint, types.Uintptr:
		return 64, false, true
	}
	return 0, false, false
}

func isFloat(t types.Type) bool {
	b, ok := t.Underlying().(*types.Basic)
	return ok && b.Info()&types.IsFloat != 0
}
func isString(t types.Type) bool {
	b, ok := t.Underlying().(*types.Basic)
	return ok && b.Info()&types.IsString != 0
}
func isBool(t types.Type) bool {
	b, ok := t.Underlying().(*types.Basic)
	return ok && b.Info()&types.IsBoolean != 0
}

// ---------- unary ----------

func (m *Machine) unop(fr *frame, instr *ssa.UnOp, x Value) Value {
	switch instr.Op {
	case token.ARROW:
		ch := x.(*ChanV)
		v, ok := m.chanRecv(ch, deref2chanElem(instr.X.Type()))
		if instr.CommaOk {
			return tuple{v, mkBool(ok)}
		}
		return v
	case token.SUB:
		t := x.(*Term)
		if t.sort == SReal {
			return tNeg(t)
		}
		bits, signed, _ := intInfo(instr.Type())
		return tWrap(tNeg(t), bits, signed)
	case token.MUL:
		if sp, ok := x.(*symPtr); ok {
			return m.loadSym(sp)
		}
		return m.load(x.(*Value))
	case token.NOT:
		return tNot(x.(*Term))
	case token.XOR:
		t := x.(*Term)
		bits, signed, _ := intInfo(instr.Type())
		if signed {
			return tSub(mkInt64(-1), t) // ^x = -x-1
		}
		return tSub(mkInt(new(big.Int).Sub(pow2(bits), big.NewInt(1))), t)
	}
	m.unsupported("unop %v", instr.Op)
	return nil
}

func deref2chanElem(t types.Type) types.Type {
	return t.Underlying().(*types.Chan).Elem()
}

// ---------- binary ----------

func (m *Machine) binop(op token.Token, t types.Type, x, y Value) Value {
	switch op {
	case token.EQL:
		return m.equals(t, x, y)
	case token.NEQ:
		return tNot(m.equals(t, x, y))
	}
	switch xv := x.(type) {
	case *Term:
		yv, ok := y.(*Term)
		if !ok {
			m.unsupported("binop %v on %T and %T", op, x, y)
		}
		if xv.sort == SBool {
			m.unsupported("binop %v on bool", op)
		}
		if isFloat(t) {
			return m.floatBinop(op, xv, yv)
		}
		return m.intBinop(op, t, xv, yv)
	case Str:
		yv := y.(Str)
		switch op {
		case token.ADD:
			return strConcat(xv, yv)
		case token.LSS, token.LEQ, token.GTR, token.GEQ:
			return m.strCompare(op, xv, yv)
		}
	case poisonV:
		return xv
	}
	if p, ok := y.(poisonV); ok {
		return p
	}
	m.unsupported("binop %v on %T", op, x)
	return nil
}

// concretizeSign replaces a symbolic finite real by a representative with the same sign when
// it is combined with an infinity (only the sign matters there).
func (m *Machine) signRep(t *Term) *Term {
	if t.IsConst() || t.IsSpecialFloat() {
		return t
	}
	zero := mkReal(new(big.Rat))
	if m.branch(tCmp(">", t, zero)) {
		return mkReal(big.NewRat(1, 1))
	}
	if m.branch(tCmp("<", t, zero)) {
		return mkReal(big.NewRat(-1, 1))
	}
	return zero
}

func (m *Machine) floatBinop(op token.Token, x, y *Term) Value {
	x, y = toReal(x), toReal(y)
	if (x.op == "inf" || y.op == "inf") && (op == token.ADD || op == token.SUB || op == token.MUL || op == token.QUO) {
		x, y = m.signRep(x), m.signRep(y)
	}
	switch op {
	case token.ADD:
		return rArith("+", x, y)
	case token.SUB:
		return rArith("-", x, y)
	case token.MUL:
		return rArith("*", x, y)
	case token.QUO:
		if y.IsSpecialFloat() || x.IsSpecialFloat() {
			return rArith("/", x, y)
		}
		zero := mkReal(new(big.Rat))
		if m.branch(tEq(y, zero)) {
			// x/0: +Inf, -Inf or NaN depending on the sign of x
			if m.branch(tCmp(">", x, zero)) {
				return tInf(1)
			}
			if m.branch(tCmp("<", x, zero)) {
				return tInf(-1)
			}
			return tNaN
		}
		return rArith("/", x, y)
	case token.LSS:
		return tCmp("<", x, y)
	case token.LEQ:
		return tCmp("<=", x, y)
	case token.GTR:
		return tCmp(">", x, y)
	case token.GEQ:
		return tCmp(">=", x, y)
	}
	m.unsupported("float binop %v", op)
	return nil
}

// wrapInt is tWrap for machine integers; for relaxed (real-sorted) integers whose range is
// not known it decides on the path whether an overflow is feasible at all.
func (m *Machine) wrapInt(t *Term, bits uint, signed bool) *Term {
	if t.sort == SInt {
		return tWrap(t, bits, signed)
	}
	var lo, hi *big.Int
	if signed {
		lo, hi = new(big.Int).Neg(pow2(bits-1)), new(big.Int).Sub(pow2(bits-1), big.NewInt(1))
	} else {
		lo, hi = big.NewInt(0), new(big.Int).Sub(pow2(bits), big.NewInt(1))
	}
	if t.within(lo, hi) {
		return t
	}
	oor := tOr(tCmp("<", t, mkReal(new(big.Rat).SetInt(lo))), tCmp(">", t, mkReal(new(big.Rat).SetInt(hi))))
	if m.branch(oor) {
		m.unsupported("overflow of a relaxed (real-sorted) integer")
	}
	c := *t
	c.lo, c.hi = lo, hi
	return &c
}

func (m *Machine) intBinop(op token.Token, t types.Type, x, y *Term) Value {
	bits, signed, ok := intInfo(t)
	if !ok {
		m.unsupported("int binop on type %v", t)
	}
	switch op {
	case token.ADD:
		return m.wrapInt(tAdd(x, y), bits, signed)
	case token.SUB:
		return m.wrapInt(tSub(x, y), bits, signed)
	case token.MUL:
		return m.wrapInt(tMul(x, y), bits, signed)
	case token.QUO:
		m.fault(tEq(y, mkInt64(0)), "integer divide by zero")
		return tWrap(tQuoGo(x, y), bits, signed)
	case token.REM:
		m.fault(tEq(y, mkInt64(0)), "integer divide by zero")
		return tRemGo(x, y)
	case token.LSS:
		return tCmp("<", x, y)
	case token.LEQ:
		return tCmp("<=", x, y)
	case token.GTR:
		return tCmp(">", x, y)
	case token.GEQ:
		return tCmp(">=", x, y)
	case token.SHL:
		if y.IsConst() {
			n := y.Int64()
			if n < 0 {
				m.rtPanic("negative shift amount")
			}
			if n >= int64(bits) {
				return mkInt64(0)
			}
			return tWrap(tMul(x, mkInt(pow2(uint(n)))), bits, signed)
		}
	case token.SHR:
		if y.IsConst() {
			n := y.Int64()
			if n < 0 {
				m.rtPanic("negative shift amount")
			}
			if n >= int64(bits) {
				if signed {
					return tIte(tCmp("<", x, mkInt64(0)), mkInt64(-1), mkInt64(0))
				}
				return mkInt64(0)
			}
			return tDivE(x, mkInt(pow2(uint(n)))) // floor division == arithmetic shift
		}
	case token.AND:
		if r := andConst(x, y, bits); r != nil {
			return r
		}
		if r := andConst(y, x, bits); r != nil {
			return r
		}
	case token.OR, token.XOR, token.AND_NOT:
	}
	if x.IsConst() && y.IsConst() {
		return constBitop(op, x, y, bits, signed)
	}
	return m.bvBitop(op, x, y, bits, signed)
}

// x & c for c = 2^k-1 is x mod 2^k (also for negative x in two's complement)
func andConst(x, c *Term, bits uint) *Term {
	if !c.IsConst() || x.IsConst() {
		return nil
	}
	v := c.iv
	if v.Sign() < 0 {
		return nil
	}
	p := new(big.Int).Add(v, big.NewInt(1))
	if new(big.Int).And(p, v).Sign() != 0 { // not 2^k-1
		return nil
	}
	return tModE(x, mkInt(p))
}

func toUnsignedBig(v *big.Int, bits uint) *big.Int {
	if v.Sign() >= 0 {
		return v
	}
	return new(big.Int).Add(v, pow2(bits))
}

func constBitop(op token.Token, x, y *Term, bits uint, signed bool) *Term {
	a, b := toUnsignedBig(x.iv, bits), toUnsignedBig(y.iv, bits)
	r := new(big.Int)
	switch op {
	case token.AND:
		r.And(a, b)
	case token.OR:
		r.Or(a, b)
	case token.XOR:
		r.Xor(a, b)
	case token.AND_NOT:
		r.AndNot(a, b)
	case token.SHL:
		n := y.iv.Uint64()
		if n >= uint64(bits) {
			return mkInt64(0)
		}
		r.Lsh(a, uint(n))
		r.Mod(r, pow2(bits))
	case token.SHR:
		n := y.iv.Uint64()
		if signed {
			if n >= uint64(bits) {
				n = uint64(bits) - 1
			}
			return mkInt(new(big.Int).Rsh(x.iv, uint(n)))
		}
		if n >= uint64(bits) {
			return mkInt64(0)
		}
		r.Rsh(a, uint(n))
	default:
		panic("constBitop " + op.String())
	}
	return tWrap(mkInt(r), bits, signed)
}

// bvBitop encodes a bit operation on symbolic integers through int2bv / bv2nat.
func (m *Machine) bvBitop(op token.Token, x, y *Term, bits uint, signed bool) *Term {
	var bvop string
	switch op {
	case token.AND:
		bvop = "bvand"
	case token.OR:
		bvop = "bvor"
	case token.XOR:
		bvop = "bvxor"
	case token.AND_NOT:
		bvop = "bvand"
	case token.SHL:
		bvop = "bvshl"
	case token.SHR:
		if signed {
			bvop = "bvashr"
		} else {
			bvop = "bvlshr"
		}
	default:
		m.unsupported("bit operation %v on symbolic operands", op)
	}
	conv := fmt.Sprintf("(_ int2bv %d)", bits)
	bx := &Term{op: conv, sort: SInt, args: []*Term{x}}
	by := &Term{op: conv, sort: SInt, args: []*Term{y}}
	if op == token.AND_NOT {
		by = &Term{op: "bvnot", sort: SInt, args: []*Term{by}}
	}
	if op == token.SHL || op == token.SHR {
		// shift counts >= width are handled by SMT semantics (result 0 / sign fill); negative counts fault
		m.fault(tCmp("<", y, mkInt64(0)), "negative shift amount")
	}
	r := &Term{op: "bv2nat", sort: SInt, args: []*Term{{op: bvop, sort: SInt, args: []*Term{bx, by}}}}
	r.lo = big.NewInt(0)
	r.hi = new(big.Int).Sub(pow2(bits), big.NewInt(1))
	if signed {
		return tWrap(r, bits, true)
	}
	return r
}

// ---------- equality ----------

func (m *Machine) equals(t types.Type, x, y Value) *Term {
	switch xv := x.(type) {
	case *Term:
		yv, ok := y.(*Term)
		if !ok {
			m.unsupported("== on %T and %T", x, y)
		}
		return tEq(xv, yv)
	case Str:
		return strEq(xv, y.(Str))
	case *Value:
		return mkBool(xv == y.(*Value))
	case structV:
		yv := y.(structV)
		var cs []*Term
		st := t.Underlying().(*types.Struct)
		for i := range xv {
			if st.Field(i).Name() == "_" {
				continue
			}
			cs = append(cs, m.equals(st.Field(i).Type(), xv[i], yv[i]))
		}
		return tAnd(cs...)
	case arrayV:
		yv := y.(arrayV)
		et := t.Underlying().(*types.Array).Elem()
		var cs []*Term
		for i := range xv {
			cs = append(cs, m.equals(et, xv[i], yv[i]))
		}
		return tAnd(cs...)
	case Iface:
		yv := y.(Iface)
		if xv.T == nil || yv.T == nil {
			return mkBool(xv.T == nil && yv.T == nil)
		}
		if !types.Identical(xv.T, yv.T) {
			return tFalse
		}
		if !types.Comparable(xv.T) {
			m.rtPanic("comparing uncomparable type " + xv.T.String())
		}
		return m.equals(xv.T, xv.V, yv.V)
	case *MapV:
		return mkBool(xv == y.(*MapV))
	case *ChanV:
		return mkBool(xv == y.(*ChanV))
	case sliceV:
		yv := y.(sliceV)
		if xv.nil || yv.nil {
			return mkBool(xv.nil && yv.nil)
		}
		m.unsupported("slice comparison")
	case *ssa.Function:
		switch yv := y.(type) {
		case *ssa.Function:
			return mkBool(xv == yv)
		default:
			return mkBool(xv == nil && isNilValue(y))
		}
	case *Closure:
		return mkBool(isNilValue(x) && isNilValue(y))
	case *nativeFn:
		return mkBool(isNilValue(y) && false)
	case TimeV:
		return tEq(xv.ns, y.(TimeV).ns)
	case *CtxV:
		return mkBool(xv == y.(*CtxV))
	case nil:
		return mkBool(isNilValue(y))
	}
	m.unsupported("== on %T", x)
	return nil
}

func strEq(a, b Str) *Term {
	if a.Len() != b.Len() {
		return tFalse
	}
	if a.IsConc() && b.IsConc() {
		return mkBool(a.s == b.s)
	}
	var cs []*Term
	for i := 0; i < a.Len(); i++ {
		cs = append(cs, tEq(a.At(i), b.At(i)))
	}
	return tAnd(cs...)
}

func strConcat(a, b Str) Str {
	if a.IsConc() && b.IsConc() {
		return Str{s: a.s + b.s}
	}
	out := make([]*Term, 0, a.Len()+b.Len())
	for i := 0; i < a.Len(); i++ {
		out = append(out, a.At(i))
	}
	for i := 0; i < b.Len(); i++ {
		out = append(out, b.At(i))
	}
	return mkStrTerms(out)
}

func (m *Machine) strCompare(op token.Token, a, b Str) *Term {
	if a.IsConc() && b.IsConc() {
		switch op {
		case token.LSS:
			return mkBool(a.s < b.s)
		case token.LEQ:
			return mkBool(a.s <= b.s)
		case token.GTR:
			return mkBool(a.s > b.s)
		default:
			return mkBool(a.s >= b.s)
		}
	}
	// lexicographic: less(i) = a[i]<b[i] or (a[i]==b[i] and less(i+1))
	n := a.Len()
	if b.Len() < n {
		n = b.Len()
	}
	var lt, eq *Term
	// base: all common bytes equal -> compare lengths
	lt = mkBool(a.Len() < b.Len())
	eq = mkBool(a.Len() == b.Len())
	for i := n - 1; i >= 0; i-- {
		e := tEq(a.At(i), b.At(i))
		lt = tOr(tCmp("<", a.At(i), b.At(i)), tAnd(e, lt))
		eq = tAnd(e, eq)
	}
	switch op {
	case token.LSS:
		return lt
	case token.LEQ:
		return tOr(lt, eq)
	case token.GTR:
		return tNot(tOr(lt, eq))
	default:
		return tNot(lt)
	}
}

// ---------- conversions ----------

func (m *Machine) conv(tdst, tsrc types.Type, x Value) Value {
	if p, ok := x.(poisonV); ok {
		return p
	}
	ud, us := tdst.Underlying(), tsrc.Underlying()
	switch us := us.(type) {
	case *types.Pointer:
		if b, ok := ud.(*types.Basic); ok && b.Kind() == types.UnsafePointer {
			return x
		}
		return x
	case *types.Slice:
		// []byte / []rune -> string
		if isString(tdst) {
			sv := x.(sliceV)
			eb, _ := us.Elem().Underlying().(*types.Basic)
			if eb != nil && eb.Kind() == types.Uint8 {
				out := make([]*Term, sv.len)
				for i := 0; i < sv.len; i++ {
					out[i] = (*sv.at(i)).(*Term)
				}
				return mkStrTerms(out)
			}
			// []rune: constant runes are encoded; a symbolic rune is followed on its ASCII branch
			// (one byte), the non-ASCII branch is outside the model
			var out []*Term
			for i := 0; i < sv.len; i++ {
				t := (*sv.at(i)).(*Term)
				if !t.IsConst() {
					if m.branch(tAnd(tCmp(">=", t, mkInt64(0)), tCmp("<", t, mkInt64(128)))) {
						out = append(out, t)
						continue
					}
					m.unsupported("[]rune->string with symbolic non-ASCII rune")
				}
				for _, b := range utf8.AppendRune(nil, rune(t.Int64())) {
					out = append(out, byteTerm(b))
				}
			}
			return mkStrTerms(out)
		}
		return x
	case *types.Basic:
		if us.Kind() == types.UnsafePointer {
			return x
		}
		if isString(tsrc) {
			if isString(tdst) {
				return x
			}
			// string -> []byte / []rune
			s := x.(Str)
			ds := ud.(*types.Slice)
			eb := ds.Elem().Underlying().(*types.Basic)
			if eb.Kind() == types.Uint8 {
				a := make([]Value, s.Len())
				for i := range a {
					a[i] = s.At(i)
				}
				return sliceV{a: a, len: len(a), cap: len(a)}
			}
			if !s.IsConc() {
				// symbolic bytes: followed on the all-ASCII branch (one rune per byte)
				var a []Value
				for i := 0; i < s.Len(); i++ {
					b := s.At(i)
					if !b.IsConst() && !m.branch(tCmp("<", b, mkInt64(128))) {
						m.unsupported("string->[]rune with symbolic non-ASCII bytes")
					}
					if b.IsConst() && b.Int64() >= 128 {
						m.unsupported("string->[]rune mixing symbolic and non-ASCII bytes")
					}
					a = append(a, b)
				}
				return sliceV{a: a, len: len(a), cap: len(a)}
			}
			var a []Value
			for _, r := range s.s {
				a = append(a, mkInt64(int64(r)))
			}
			return sliceV{a: a, len: len(a), cap: len(a)}
		}
		t, ok := x.(*Term)
		if !ok {
			m.unsupported("conv of %T", x)
		}
		if us.Info()&types.IsInteger != 0 {
			switch {
			case isString(tdst):
				if !t.IsConst() {
					// string(rune) of a symbolic ASCII rune
					m.fault(tFalse, "")
					if m.branch(tAnd(tCmp(">=", t, mkInt64(0)), tCmp("<", t, mkInt64(0x80)))) {
						return mkStrTerms([]*Term{t})
					}
					m.unsupported("string(rune) of symbolic non-ASCII rune")
				}
				return Str{s: string(rune(t.Int64()))}
			case isFloat(tdst):
				return toReal(t)
			default:
				bits, signed, ok := intInfo(tdst)
				if !ok {
					m.unsupported("conv int -> %v", tdst)
				}
				return tWrap(t, bits, signed)
			}
		}
		if us.Info()&types.IsFloat != 0 {
			if isFloat(tdst) {
				if b := ud.(*types.Basic); b.Kind() == types.Float32 {
					if !t.IsConst() {
						m.unsupported("float32 conversion of symbolic value")
					}
					f, _ := t.rv.Float64()
					return mkRealF(float64(float32(f)))
				}
				return t
			}
			bits, signed, ok := intInfo(tdst)
			if !ok {
				m.unsupported("conv float -> %v", tdst)
			}
			if t.IsSpecialFloat() || t.op == "poison" {
				// implementation-defined in Go; amd64 yields the "integer indefinite" value
				m.notePoison("float->int conversion of " + t.op)
				if signed {
					return mkInt(new(big.Int).Neg(pow2(bits - 1)))
				}
				return mkInt(pow2(bits - 1))
			}
			// out-of-range float->int is implementation-defined: flag and use amd64 behaviour.
			// The range test is made on the real value itself (no to_int in the query).
			var lo, hi *big.Int
			if signed {
				lo, hi = new(big.Int).Neg(pow2(bits-1)), new(big.Int).Sub(pow2(bits-1), big.NewInt(1))
			} else {
				lo, hi = big.NewInt(0), new(big.Int).Sub(pow2(bits), big.NewInt(1))
			}
			if t.IsConst() {
				tr := tTruncReal(t)
				if tr.iv.Cmp(lo) < 0 || tr.iv.Cmp(hi) > 0 {
					m.notePoison("float->int conversion out of range")
					return mkInt(lo)
				}
				return tr
			}
			loR := mkReal(new(big.Rat).SetInt(new(big.Int).Sub(lo, big.NewInt(1))))
			hiR := mkReal(new(big.Rat).SetInt(new(big.Int).Add(hi, big.NewInt(1))))
			oor := tOr(tCmp("<=", t, loR), tCmp(">=", t, hiR))
			if m.branch(oor) {
				m.notePoison("float->int conversion out of range")
				if signed {
					return mkInt(lo)
				}
				return mkInt(pow2(bits - 1))
			}
			if m.eng.cfg.RelaxTrunc {
				// over-approximation: the truncated value is any real r with |t-r| < 1 on the
				// zero side of t (integrality dropped); a proof under it covers the real truncation
				r := m.freshVar("trunc", SReal, lo, hi)
				zero := mkReal(new(big.Rat))
				one := mkReal(big.NewRat(1, 1))
				m.assertPC(tIte(tCmp(">=", t, zero),
					tAnd(tCmp(">=", r, zero), tCmp("<=", r, t), tCmp("<", t, rArith("+", r, one))),
					tAnd(tCmp("<=", r, zero), tCmp(">=", r, t), tCmp(">", t, rArith("-", r, one)))))
				return r
			}
			tr := tTruncReal(t)
			tr2 := *tr
			tr2.lo, tr2.hi = lo, hi
			return &tr2
		}
	case *types.Signature, *types.Map, *types.Chan, *types.Struct, *types.Array, *types.Interface:
		return x
	}
	m.unsupported("conv %v -> %v", tsrc, tdst)
	return nil
}

func (m *Machine) notePoison(what string) {
	m.ghost["poison"] = Str{s: what}
	m.stubs["poison: "+what]++
}

// ---------- slices, indexing ----------

func (m *Machine) slice(instr *ssa.Slice, x, lo, hi, max Value) Value {
	var Len, Cap int
	var kind int // 0 slice 1 string 2 *array
	var sv sliceV
	var s Str
	switch xv := x.(type) {
	case sliceV:
		sv = xv
		Len, Cap = xv.len, xv.cap
	case Str:
		kind = 1
		s = xv
		Len, Cap = xv.Len(), xv.Len()
	case *Value:
		kind = 2
		if xv == nil {
			m.rtPanic("nil pointer dereference (slice of nil *array)")
		}
		arr := (*xv).(arrayV)
		sv = sliceV{a: []Value(arr), len: len(arr), cap: len(arr)}
		Len, Cap = len(arr), len(arr)
	default:
		m.unsupported("slice of %T", x)
	}
	l, h, mx := int64(0), int64(Len), int64(Cap)
	// symbolic bounds: first the fault condition as one query, then case split
	var lt, ht, mt *Term
	if lo != nil {
		lt = lo.(*Term)
	} else {
		lt = mkInt64(0)
	}
	if hi != nil {
		ht = hi.(*Term)
	} else {
		ht = mkInt64(int64(Len))
	}
	if max != nil {
		mt = max.(*Term)
	} else {
		mt = mkInt64(int64(Cap))
	}
	upper := int64(Cap)
	if kind == 1 {
		upper = int64(Len)
	}
	bad := tOr(tCmp("<", lt, mkInt64(0)), tCmp(">", lt, ht), tCmp(">", ht, mt), tCmp(">", mt, mkInt64(upper)))
	m.fault(bad, "slice bounds out of range")
	l = m.concretize(boundTerm(lt, 0, upper), "slice low")
	h = m.concretize(boundTerm(ht, l, upper), "slice high")
	mx = m.concretize(boundTerm(mt, h, upper), "slice max")
	switch kind {
	case 1:
		return s.Slice(int(l), int(h))
	default:
		if kind == 0 && sv.nil && h == 0 {
			return sliceV{nil: true}
		}
		return sliceV{a: sv.a, off: sv.off + int(l), len: int(h - l), cap: int(mx - l)}
	}
}

// boundTerm attaches a known interval (established by a preceding fault check) to a term.
func boundTerm(t *Term, lo, hi int64) *Term {
	if t.IsConst() {
		return t
	}
	c := *t
	nlo, nhi := big.NewInt(lo), big.NewInt(hi)
	if c.lo == nil || c.lo.Cmp(nlo) < 0 {
		c.lo = nlo
	}
	if c.hi == nil || c.hi.Cmp(nhi) > 0 {
		c.hi = nhi
	}
	return &c
}

// elemRef remembers which backing array an element pointer belongs to (for unsafe.String/Slice).
type elemRef struct {
	elems []Value
	i     int
}

// symPtr is the address of an element selected by a symbolic index: loads become an ite
// chain over the elements, stores case-split on the index.
type symPtr struct {
	elems []Value
	idx   *Term
}

func (m *Machine) indexAddr(x Value, idx *Term) Value {
	var elems []Value
	switch xv := x.(type) {
	case sliceV:
		elems = xv.elems()
	case *Value:
		if xv == nil {
			m.rtPanic("nil pointer dereference (index of nil *array)")
		}
		elems = []Value((*xv).(arrayV))
	default:
		m.unsupported("IndexAddr on %T", x)
	}
	if idx.IsConst() {
		i := m.boundsCheck(idx, len(elems))
		p := &elems[i]
		if i == 0 {
			m.elemOf[p] = elemRef{elems, i}
		}
		return p
	}
	m.fault(tOr(tCmp("<", idx, mkInt64(0)), tCmp(">=", idx, mkInt64(int64(len(elems))))), "index out of range")
	bi := boundTerm(idx, 0, int64(len(elems)-1))
	span := new(big.Int).Sub(bi.hi, bi.lo)
	if span.IsInt64() && span.Int64() <= 8 {
		return &elems[m.concretize(bi, "index")]
	}
	return &symPtr{elems: elems, idx: bi}
}

func (m *Machine) loadSym(p *symPtr) Value {
	return m.iteChain(p.idx, len(p.elems), func(i int) Value { return p.elems[i] })
}

func (m *Machine) storeSym(p *symPtr, v Value) {
	i := m.concretize(p.idx, "store through symbolic index")
	store(&p.elems[i], v)
}

func (m *Machine) boundsCheck(idx *Term, n int) int {
	if idx.IsConst() {
		i := idx.Int64()
		if i < 0 || i >= int64(n) {
			m.rtPanic(fmt.Sprintf("index out of range [%d] with length %d", i, n))
		}
		return int(i)
	}
	m.fault(tOr(tCmp("<", idx, mkInt64(0)), tCmp(">=", idx, mkInt64(int64(n)))), "index out of range")
	return int(m.concretize(boundTerm(idx, 0, int64(n-1)), "index"))
}

func (m *Machine) index(x Value, idx *Term) Value {
	switch xv := x.(type) {
	case arrayV:
		if !idx.IsConst() {
			// symbolic index into an array value: ite chain when elements are terms
			m.fault(tOr(tCmp("<", idx, mkInt64(0)), tCmp(">=", idx, mkInt64(int64(len(xv))))), "index out of range")
			return m.iteChain(idx, len(xv), func(i int) Value { return xv[i] })
		}
		return copyVal(xv[m.boundsCheck(idx, len(xv))])
	case Str:
		if !idx.IsConst() {
			m.fault(tOr(tCmp("<", idx, mkInt64(0)), tCmp(">=", idx, mkInt64(int64(xv.Len())))), "index out of range")
			return m.iteChain(idx, xv.Len(), func(i int) Value { return xv.At(i) })
		}
		return xv.At(m.boundsCheck(idx, xv.Len()))
	}
	m.unsupported("Index on %T", x)
	return nil
}

// iteChain reads element idx of n elements (all *Term) as nested ites; constant tables are
// grouped by value so that e.g. a 256-entry classification table becomes a few range tests.
func (m *Machine) iteChain(idx *Term, n int, get func(int) Value) Value {
	allTerms, allConst := true, true
	for i := 0; i < n; i++ {
		t, ok := get(i).(*Term)
		if !ok {
			allTerms = false
			break
		}
		if !t.IsConst() || t.sort != SInt {
			allConst = false
		}
	}
	lo, hi := 0, n-1
	if idx.lo != nil && idx.lo.IsInt64() && idx.lo.Int64() > 0 {
		lo = int(idx.lo.Int64())
	}
	if idx.hi != nil && idx.hi.IsInt64() && idx.hi.Int64() < int64(hi) {
		hi = int(idx.hi.Int64())
	}
	if !allTerms {
		i := m.concretize(boundTerm(idx, int64(lo), int64(hi)), "index")
		return copyVal(get(int(i)))
	}
	if allConst && hi-lo > 8 {
		// group maximal runs of equal values
		type run struct {
			from, to int
			v        *Term
		}
		var runs []run
		for i := lo; i <= hi; i++ {
			t := get(i).(*Term)
			if len(runs) > 0 && runs[len(runs)-1].v.iv.Cmp(t.iv) == 0 {
				runs[len(runs)-1].to = i
			} else {
				runs = append(runs, run{i, i, t})
			}
		}
		if len(runs) > 600 {
			i := m.concretize(boundTerm(idx, int64(lo), int64(hi)), "index")
			return get(int(i))
		}
		r := runs[len(runs)-1].v
		for k := len(runs) - 2; k >= 0; k-- {
			r = tIte(tCmp("<=", idx, mkInt64(int64(runs[k].to))), runs[k].v, r)
		}
		return r
	}
	if hi-lo > 300 {
		i := m.concretize(boundTerm(idx, int64(lo), int64(hi)), "index")
		return copyVal(get(int(i)))
	}
	r := get(hi).(*Term)
	for i := hi - 1; i >= lo; i-- {
		r = tIte(tEq(idx, mkInt64(int64(i))), get(i).(*Term), r)
	}
	return r
}

// ---------- type assertions ----------

func (m *Machine) typeAssert(instr *ssa.TypeAssert, x Value) Value {
	itf, ok := x.(Iface)
	if !ok {
		m.unsupported("type assert on %T", x)
	}
	var v Value
	err := ""
	if idst, ok := instr.AssertedType.Underlying().(*types.Interface); ok {
		if itf.T == nil {
			err = "interface conversion: interface is nil"
		} else if m.implements(itf, idst) {
			v = itf
		} else {
			err = fmt.Sprintf("interface conversion: %v does not implement %v", itf.T, instr.AssertedType)
		}
	} else {
		if itf.T != nil && types.Identical(itf.T, instr.AssertedType) {
			v = copyVal(itf.V)
		} else {
			err = fmt.Sprintf("interface conversion: interface is %v, not %v", itf.T, instr.AssertedType)
		}
	}
	if err != "" {
		if !instr.CommaOk {
			m.rtPanic(err)
		}
		return tuple{zero(instr.AssertedType), tFalse}
	}
	if instr.CommaOk {
		return tuple{v, tTrue}
	}
	return v
}

func (m *Machine) implements(itf Iface, idst *types.Interface) bool {
	if _, ok := itf.V.(*CtxV); ok {
		// modelled context implements only context.Context's method set
		for i := 0; i < idst.NumMethods(); i++ {
			switch idst.Method(i).Name() {
			case "Done", "Err", "Value", "Deadline":
			default:
				return false
			}
		}
		return true
	}
	return types.Implements(itf.T, idst) || func() bool {
		ms := m.eng.prog.MethodSets.MethodSet(itf.T)
		for i := 0; i < idst.NumMethods(); i++ {
			meth := idst.Method(i)
			if ms.Lookup(meth.Pkg(), meth.Name()) == nil {
				return false
			}
		}
		return true
	}()
}

// ---------- maps ----------

func (m *Machine) concKey(k Value) (string, bool) {
	switch k := k.(type) {
	case *Term:
		if k.IsConst() {
			switch k.sort {
			case SInt:
				return "i" + k.iv.String(), true
			case SBool:
				return fmt.Sprint("b", k.bv), true
			case SReal:
				return "r" + k.rv.String(), true
			}
		}
	case Str:
		if k.IsConc() {
			return "s" + k.s, true
		}
	case *Value:
		return fmt.Sprintf("p%p", k), true
	case Iface:
		if k.T == nil {
			return "nil", true
		}
		s, ok := m.concKey(k.V)
		return "I" + k.T.String() + ":" + s, ok
	case structV:
		out := "{"
		for _, f := range k {
			s, ok := m.concKey(f)
			if !ok {
				return "", false
			}
			out += s + ","
		}
		return out + "}", true
	case arrayV:
		out := "["
		for _, f := range k {
			s, ok := m.concKey(f)
			if !ok {
				return "", false
			}
			out += s + ","
		}
		return out + "]", true
	case *ChanV:
		return fmt.Sprintf("c%p", k), true
	case *CtxV:
		return fmt.Sprintf("x%p", k), true
	}
	return "", false
}

func (mv *MapV) allConc() bool { return len(mv.conc) == len(mv.entries) }

// findEntry locates the entry for key k (forking on symbolic key comparisons).
func (m *Machine) findEntry(mv *MapV, kt types.Type, k Value) *mapEntry {
	if ck, ok := m.concKey(k); ok && mv.allConc() {
		return mv.conc[ck]
	}
	for _, e := range mv.entries {
		if m.branch(m.equals(kt, e.k, k)) {
			return e
		}
	}
	return nil
}

func (m *Machine) lookup(instr *ssa.Lookup, x, idx Value) Value {
	switch xv := x.(type) {
	case Str:
		return m.index(xv, idx.(*Term))
	case *MapV:
		mt := instr.X.Type().Underlying().(*types.Map)
		var e *mapEntry
		if xv != nil {
			m.noteMapAccess(xv, false)
			e = m.findEntry(xv, mt.Key(), idx)
		}
		var v Value
		if e != nil {
			v = copyVal(e.v)
		} else {
			v = zero(mt.Elem())
		}
		if instr.CommaOk {
			return tuple{v, mkBool(e != nil)}
		}
		return v
	}
	m.unsupported("lookup on %T", x)
	return nil
}

func (m *Machine) mapUpdate(mv *MapV, k, v Value) {
	m.noteMapAccess(mv, true)
	e := m.findEntryAny(mv, k)
	if e != nil {
		e.v = copyVal(v)
		return
	}
	ne := &mapEntry{k: copyVal(k), v: copyVal(v)}
	if ck, ok := m.concKey(k); ok {
		mv.conc[ck] = ne
	}
	mv.entries = append(mv.entries, ne)
}

func (m *Machine) findEntryAny(mv *MapV, k Value) *mapEntry {
	if ck, ok := m.concKey(k); ok && mv.allConc() {
		return mv.conc[ck]
	}
	for _, e := range mv.entries {
		if m.branch(m.equalsDyn(e.k, k)) {
			return e
		}
	}
	return nil
}

// equalsDyn compares two values of the same (unknown) static type.
func (m *Machine) equalsDyn(x, y Value) *Term {
	switch xv := x.(type) {
	case structV:
		yv := y.(structV)
		var cs []*Term
		for i := range xv {
			cs = append(cs, m.equalsDyn(xv[i], yv[i]))
		}
		return tAnd(cs...)
	case arrayV:
		yv := y.(arrayV)
		var cs []*Term
		for i := range xv {
			cs = append(cs, m.equalsDyn(xv[i], yv[i]))
		}
		return tAnd(cs...)
	case Iface:
		yv := y.(Iface)
		if xv.T == nil || yv.T == nil {
			return mkBool(xv.T == nil && yv.T == nil)
		}
		if !types.Identical(xv.T, yv.T) {
			return tFalse
		}
		return m.equalsDyn(xv.V, yv.V)
	}
	return m.equals(nil, x, y)
}

func (m *Machine) mapDelete(mv *MapV, k Value) {
	if mv == nil {
		return
	}
	m.noteMapAccess(mv, true)
	e := m.findEntryAny(mv, k)
	if e == nil {
		return
	}
	for i, x := range mv.entries {
		if x == e {
			mv.entries = append(mv.entries[:i:i], mv.entries[i+1:]...)
			break
		}
	}
	if ck, ok := m.concKey(e.k); ok {
		delete(mv.conc, ck)
	}
}

// ---------- range ----------

type iterator interface {
	next(m *Machine) tuple
}

type stringIter struct {
	s Str
	i int
}

func (it *stringIter) next(m *Machine) tuple {
	if it.i >= it.s.Len() {
		return tuple{tFalse, mkInt64(0), mkInt64(0)}
	}
	idx := it.i
	b := it.s.At(idx)
	if b.IsConst() && it.s.IsConc() {
		r, sz := utf8.DecodeRuneInString(it.s.s[idx:])
		it.i += sz
		return tuple{tTrue, mkInt64(int64(idx)), mkInt64(int64(r))}
	}
	if m.branch(tCmp("<", b, mkInt64(0x80))) {
		it.i++
		return tuple{tTrue, mkInt64(int64(idx)), b}
	}
	m.unsupported("range over string with symbolic non-ASCII byte")
	return nil
}

type mapIter struct {
	mv      *MapV
	entries []*mapEntry
	i       int
}

func (it *mapIter) next(m *Machine) tuple {
	for it.i < len(it.entries) {
		e := it.entries[it.i]
		it.i++
		// skip entries deleted during iteration
		live := false
		for _, x := range it.mv.entries {
			if x == e {
				live = true
				break
			}
		}
		if live {
			return tuple{tTrue, copyVal(e.k), copyVal(e.v)}
		}
	}
	return tuple{tFalse, nil, nil}
}

func (m *Machine) rangeIter(x Value, t types.Type) iterator {
	switch xv := x.(type) {
	case Str:
		return &stringIter{s: xv}
	case *MapV:
		if xv == nil {
			return &mapIter{mv: &MapV{}}
		}
		m.noteMapAccess(xv, false)
		ents := append([]*mapEntry{}, xv.entries...)
		if m.eng.cfg.Harness != "" && m.ghost["mapperm"] != nil && len(ents) > 1 && len(ents) <= 3 {
			// explore every iteration order
			perm := m.choosePerm(len(ents))
			p := make([]*mapEntry, len(ents))
			for i, j := range perm {
				p[i] = ents[j]
			}
			ents = p
		}
		return &mapIter{mv: xv, entries: ents}
	}
	m.unsupported("range over %T", x)
	return nil
}

func (m *Machine) choosePerm(n int) []int {
	avail := make([]int, n)
	for i := range avail {
		avail[i] = i
	}
	var out []int
	for len(avail) > 0 {
		k := m.choose(len(avail), "maporder")
		out = append(out, avail[k])
		avail = append(avail[:k:k], avail[k+1:]...)
	}
	return out
}

// ---------- builtins ----------

func (m *Machine) callBuiltin(caller *frame, fn *ssa.Builtin, args []Value, site *ssa.Call) Value {
	switch fn.Name() {
	case "append":
		if len(args) == 1 {
			return args[0]
		}
		dst := args[0].(sliceV)
		var src []Value
		switch s := args[1].(type) {
		case sliceV:
			src = s.elems()
		case Str:
			for i := 0; i < s.Len(); i++ {
				src = append(src, s.At(i))
			}
		}
		if len(src) == 0 {
			return dst
		}
		if dst.len+len(src) <= dst.cap {
			for i, v := range src {
				m.noteAccess(&dst.a[dst.off+dst.len+i], true)
				dst.a[dst.off+dst.len+i] = copyVal(v)
			}
			dst.len += len(src)
			return dst
		}
		ncap := dst.cap * 2
		if ncap < dst.len+len(src) {
			ncap = dst.len + len(src)
		}
		a := make([]Value, ncap)
		copy(a, dst.elems())
		for i, v := range src {
			a[dst.len+i] = copyVal(v)
		}
		// zero the spare capacity
		if ncap > dst.len+len(src) {
			et := site.Type().Underlying().(*types.Slice).Elem()
			z := zero(et)
			for i := dst.len + len(src); i < ncap; i++ {
				a[i] = copyVal(z)
			}
		}
		return sliceV{a: a, len: dst.len + len(src), cap: ncap}

	case "copy":
		dst := args[0].(sliceV)
		n := dst.len
		switch s := args[1].(type) {
		case sliceV:
			if s.len < n {
				n = s.len
			}
			tmp := make([]Value, n)
			for i := 0; i < n; i++ {
				tmp[i] = copyVal(*s.at(i))
			}
			for i := 0; i < n; i++ {
				*dst.at(i) = tmp[i]
			}
		case Str:
			if s.Len() < n {
				n = s.Len()
			}
			for i := 0; i < n; i++ {
				*dst.at(i) = s.At(i)
			}
		}
		return mkInt64(int64(n))

	case "close":
		m.chanClose(args[0].(*ChanV))
		return nil

	case "delete":
		m.mapDelete(args[0].(*MapV), args[1])
		return nil

	case "print", "println":
		return nil

	case "len":
		switch x := args[0].(type) {
		case Str:
			return mkInt64(int64(x.Len()))
		case arrayV:
			return mkInt64(int64(len(x)))
		case *Value:
			if x == nil {
				return mkInt64(int64(deref(site.Call.Args[0].Type()).Underlying().(*types.Array).Len()))
			}
			return mkInt64(int64(len((*x).(arrayV))))
		case sliceV:
			return mkInt64(int64(x.len))
		case *MapV:
			if x == nil {
				return mkInt64(0)
			}
			m.noteMapAccess(x, false)
			return mkInt64(int64(len(x.entries)))
		case *ChanV:
			if x == nil {
				return mkInt64(0)
			}
			return mkInt64(int64(len(x.buf)))
		}
	case "cap":
		switch x := args[0].(type) {
		case arrayV:
			return mkInt64(int64(len(x)))
		case *Value:
			return mkInt64(int64(len((*x).(arrayV))))
		case sliceV:
			return mkInt64(int64(x.cap))
		case *ChanV:
			if x == nil {
				return mkInt64(0)
			}
			return mkInt64(int64(x.cap))
		}
	case "min", "max":
		r := args[0].(*Term)
		for _, a := range args[1:] {
			t := a.(*Term)
			if fn.Name() == "min" {
				r = tIte(tCmp("<", t, r), t, r)
			} else {
				r = tIte(tCmp(">", t, r), t, r)
			}
		}
		return r
	case "panic":
		panic(targetPanic{args[0]})
	case "recover":
		return m.doRecover(caller)
	case "ssa:wrapnilchk":
		recv := args[0]
		if p, ok := recv.(*Value); ok && p == nil {
			m.rtPanic("value method called using nil pointer")
		}
		return recv
	case "String": // unsafe.String(ptr, len)
		p := args[0].(*Value)
		n := int(m.concretize(args[1].(*Term), "unsafe.String len"))
		if n == 0 {
			return Str{}
		}
		ref, ok := m.elemOf[p]
		if !ok || ref.i+n > len(ref.elems) {
			m.unsupported("unsafe.String of an untracked pointer")
		}
		out := make([]*Term, n)
		for i := 0; i < n; i++ {
			out[i] = ref.elems[ref.i+i].(*Term)
		}
		return mkStrTerms(out)
	case "SliceData":
		sv := args[0].(sliceV)
		if sv.cap == 0 {
			return (*Value)(nil)
		}
		p := &sv.a[sv.off]
		m.elemOf[p] = elemRef{sv.a[sv.off : sv.off+sv.cap], 0}
		return p
	case "Slice": // unsafe.Slice(ptr, len)
		p := args[0].(*Value)
		n := int(m.concretize(args[1].(*Term), "unsafe.Slice len"))
		if p == nil {
			return sliceV{nil: true}
		}
		ref, ok := m.elemOf[p]
		if !ok || ref.i+n > len(ref.elems) {
			m.unsupported("unsafe.Slice of an untracked pointer")
		}
		return sliceV{a: ref.elems, off: ref.i, len: n, cap: len(ref.elems) - ref.i}
	case "StringData":
		s := args[0].(Str)
		a := make([]Value, s.Len())
		for i := range a {
			a[i] = s.At(i)
		}
		if len(a) == 0 {
			return (*Value)(nil)
		}
		m.elemOf[&a[0]] = elemRef{a, 0}
		return &a[0]
	case "clear":
		switch x := args[0].(type) {
		case *MapV:
			if x != nil {
				x.entries = nil
				x.conc = map[string]*mapEntry{}
			}
			return nil
		}
	}
	m.unsupported("builtin %s on %T", fn.Name(), args[0])
	return nil
}
