package main

// Hybrid lockset / happens-before race analysis over the memory accesses of a path.
// Happens-before edges: goroutine start, channel send->recv / close->recv, Once, WaitGroup.
// Mutexes contribute through locksets only, so that a conflict is found independently of
// the order in which the two critical sections happened to run on this path.

import (
	"fmt"
)

type access struct {
	tid    int
	write  bool
	atomic bool
	vc     []int
	locks  []interface{}
	where  string
}

type raceLog struct {
	acc     map[interface{}][]access
	reports []string
	seen    map[string]bool
}

func (m *Machine) raceBegin() {
	m.accessLog = &raceLog{acc: map[interface{}][]access{}, seen: map[string]bool{}}
}

func joinVC(a, b []int) []int {
	if len(b) > len(a) {
		a = append(a, make([]int, len(b)-len(a))...)
	}
	for i, v := range b {
		if v > a[i] {
			a[i] = v
		}
	}
	return a
}

func (t *Thread) tick() {
	for len(t.vc) <= t.id {
		t.vc = append(t.vc, 0)
	}
	t.vc[t.id]++
}

func (m *Machine) hbSpawn(parent, child *Thread) {
	parent.tick()
	child.vc = append([]int{}, parent.vc...)
	child.tick()
	parent.tick()
}

func (m *Machine) hbRelease(t *Thread, vc *[]int) {
	t.tick()
	*vc = joinVC(*vc, t.vc)
	t.tick()
}

func (m *Machine) hbAcquire(t *Thread, vc []int) {
	t.vc = joinVC(t.vc, vc)
}

func (m *Machine) hbEdge(from, to *Thread) {
	from.tick()
	to.vc = joinVC(to.vc, from.vc)
	from.tick()
}

func (m *Machine) curPos() string {
	return ""
}

func ordered(a access, t *Thread) bool {
	// a happened before the current event of t iff a.vc[a.tid] <= t.vc[a.tid]
	if a.tid >= len(a.vc) {
		return true
	}
	if a.tid >= len(t.vc) {
		return false
	}
	return a.vc[a.tid] <= t.vc[a.tid]
}

func commonLock(a, b []interface{}) bool {
	for _, x := range a {
		for _, y := range b {
			if x == y {
				return true
			}
			// a read lock and the write lock of the same RWMutex exclude each other
			if rx, ok := x.(rlockOf); ok {
				if ms, ok2 := y.(*mutexState); ok2 && rx.s == ms {
					return true
				}
			}
			if ry, ok := y.(rlockOf); ok {
				if ms, ok2 := x.(*mutexState); ok2 && ry.s == ms {
					return true
				}
			}
		}
	}
	return false
}

func (m *Machine) noteAccessKey(key interface{}, write, atomic bool, what string) {
	rl := m.accessLog
	if rl == nil || m.cur == nil || m.inInit > 0 {
		return
	}
	t := m.cur
	t.tick()
	for _, a := range rl.acc[key] {
		if a.tid == t.id {
			continue
		}
		if !a.write && !write {
			continue
		}
		if a.atomic && atomic {
			continue
		}
		if ordered(a, t) {
			continue
		}
		// two read-locks do not exclude each other, but then neither is a write... a write under
		// RLock conflicts with a read under RLock: rlockOf values are equal, so treat equal
		// rlocks as non-excluding:
		if commonLockExcl(a.locks, t.locks) {
			continue
		}
		msg := fmt.Sprintf("%s: %s by thread %d vs %s by thread %d", what, rw(a.write), a.tid, rw(write), t.id)
		if !rl.seen[msg] {
			rl.seen[msg] = true
			rl.reports = append(rl.reports, msg)
		}
	}
	acc := access{tid: t.id, write: write, atomic: atomic, vc: append([]int{}, t.vc...), locks: append([]interface{}{}, t.locks...), where: what}
	lst := rl.acc[key]
	if len(lst) < 64 {
		rl.acc[key] = append(lst, acc)
	}
}

func commonLockExcl(a, b []interface{}) bool {
	for _, x := range a {
		for _, y := range b {
			_, xr := x.(rlockOf)
			_, yr := y.(rlockOf)
			if xr && yr {
				continue // shared/shared does not exclude
			}
			if commonLock([]interface{}{x}, []interface{}{y}) {
				return true
			}
		}
	}
	return false
}

func rw(w bool) string {
	if w {
		return "write"
	}
	return "read"
}

func (m *Machine) noteAccess(addr *Value, write bool) {
	if m.accessLog == nil {
		return
	}
	m.noteAccessKey(addr, write, false, m.describeAddr(addr))
}

func (m *Machine) noteAtomic(addr *Value, write bool) {
	if m.accessLog == nil {
		return
	}
	m.noteAccessKey(addr, write, true, m.describeAddr(addr))
}

func (m *Machine) noteMapAccess(mv *MapV, write bool) {
	if m.accessLog == nil {
		return
	}
	m.noteAccessKey(mv, write, false, "map")
}

func (m *Machine) describeAddr(addr *Value) string {
	if n, ok := m.ghost[fmt.Sprintf("name:%p", addr)]; ok {
		return n.(Str).s
	}
	return fmt.Sprintf("slot(%s)", valString(*addr))
}
