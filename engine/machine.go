package main

// Machine: one symbolic execution worker. Paths are explored by re-execution from the
// harness entry following a recorded prefix of decisions; new decisions fork by pushing
// the alternative prefixes on the shared worklist.

import (
	"fmt"
	"go/types"
	"math/big"
	"os"
	"runtime/debug"
	"sort"
	"strings"
	"sync"
	"time"

	"golang.org/x/tools/go/ssa"
)

type pathAbort struct {
	kind string // unsupported, assume, unwind, deadlock, killed, solver-error, engine-error, stop, exit
	msg  string
}

type targetPanic struct{ v Value }

// Violation is a failed check with the solver's model.
type Violation struct {
	Check   string            `json:"check"`
	Harness string            `json:"harness"`
	Model   map[string]string `json:"model"`
	Trace   []int             `json:"trace"`
	Note    string            `json:"note,omitempty"`
	Sched   []string          `json:"sched,omitempty"`
}

// Witness: a model of one explored path with the values the harness observed under it;
// replayed natively to validate the translation (same inputs must give same observations).
type Witness struct {
	Model map[string]string `json:"model"`
	Obs   []string          `json:"obs"`
	Trace []int             `json:"trace"`
}

type CheckStat struct {
	Reached    int
	Discharged int // unsat answers (or constant-true)
	Violated   int
	Unknown    int
}

type PathOutcome struct {
	Kind string
	Msg  string
}

// Results shared by the workers of one harness run.
type Results struct {
	mu         sync.Mutex
	Checks     map[string]*CheckStat
	Reach      map[string]int
	Violations []Violation
	Outcomes   map[string]int    // path outcome kind -> count
	OutcomeMsg map[string]string // first message per "kind: msg" (for unsupported etc.)
	Paths      int
	Instrs     int64
	Queries    int
	SolverTime time.Duration
	Funcs      map[string]bool
	Stubs      map[string]int
	Assumes    map[string]bool
	Samples    []string
	CrossCheck []string // standalone scripts of final check queries (thorough)
	Witnesses  []Witness
	MaxDepth   int
}

func NewResults() *Results {
	return &Results{Checks: map[string]*CheckStat{}, Reach: map[string]int{}, Outcomes: map[string]int{},
		OutcomeMsg: map[string]string{}, Funcs: map[string]bool{}, Stubs: map[string]int{}, Assumes: map[string]bool{}}
}

type Config struct {
	Harness       string
	MaxPaths      int
	UnwindLimit   int // max visits of one block per frame activation
	Preempt       int // preemption budget
	StepLimit     int64
	Workers       int
	SolverBin     string
	Fallback      []string
	QueryMs       int
	MaxViol       int // stop collecting after this many violations per check
	KeepScripts   bool
	Witnesses     int
	RelaxTrunc    bool
	PatienceMs    int
	BudgetS       int
	FreeSched     bool
	Thorough      bool
	MaxTimerFires int
	Known         []string
	Seed          int
	Verbose       bool
}

type Engine struct {
	prog      *ssa.Program
	pkgs      map[string]*ssa.Package
	cfg       Config
	res       *Results
	entry     *ssa.Function
	wlMu      sync.Mutex
	wl        [][]int
	active    int
	wlCond    *sync.Cond
	stopped   bool
	budgetHit bool
}

type Machine struct {
	eng    *Engine
	sol    *Solver
	prefix []int
	pos    int
	trace  []int
	vars   []string
	nfresh int
	pcLog  []string

	globals     map[*ssa.Global]*Value
	sharedGlob  map[*ssa.Global]*Value // stdlib globals, initialised once per machine
	inited      map[*ssa.Package]bool
	sharedInit  map[*ssa.Package]bool
	snap        map[*ssa.Global]Value
	inInit      int
	nestedInit  map[*ssa.Function]bool
	steps       int64
	funcs       map[string]bool
	stubs       map[string]int
	schedLog    []string
	curHarness  string
	localChecks map[string]*CheckStat

	// concurrency state (conc.go)
	threads      []*Thread
	cur          *Thread
	killed       bool
	preemptLeft  int
	doneCh       chan struct{}
	outcome      PathOutcome
	side         map[*Value]interface{} // side tables for sync primitives keyed by slot address
	clock        *Term
	ghost        map[string]Value
	elemOf       map[*Value]elemRef
	timerFires   int
	ignoreTimers bool
	curInstr     ssa.Instruction
	curFn        *ssa.Function
	faultPos     string
	pools        map[*Value][]pooled // sync.Pool contents of the current path
	exitChecks   []exitCheck
	obsNames     []string
	obsTerms     []*Term
	accessLog    *raceLog
}

func (e *Engine) push(p []int) {
	e.wlMu.Lock()
	e.wl = append(e.wl, p)
	e.wlMu.Unlock()
	e.wlCond.Signal()
}

func (e *Engine) pop() ([]int, bool) {
	e.wlMu.Lock()
	defer e.wlMu.Unlock()
	for {
		if e.stopped {
			return nil, false
		}
		if n := len(e.wl); n > 0 {
			p := e.wl[n-1]
			e.wl = e.wl[:n-1]
			e.active++
			return p, true
		}
		if e.active == 0 {
			e.wlCond.Broadcast()
			return nil, false
		}
		e.wlCond.Wait()
	}
}

func (e *Engine) donePath() {
	e.wlMu.Lock()
	e.active--
	if e.cfg.MaxPaths > 0 && e.res.Paths >= e.cfg.MaxPaths {
		e.stopped = true
	}
	e.wlMu.Unlock()
	e.wlCond.Broadcast()
}

// Run explores all paths of the harness entry.
func (e *Engine) Run() {
	e.wlCond = sync.NewCond(&e.wlMu)
	e.wl = [][]int{{}}
	stopTick := make(chan struct{})
	defer close(stopTick)
	go func() {
		t0 := time.Now()
		tk := time.NewTicker(10 * time.Second)
		defer tk.Stop()
		for {
			select {
			case <-stopTick:
				return
			case <-tk.C:
				e.res.mu.Lock()
				paths := e.res.Paths
				e.res.mu.Unlock()
				e.wlMu.Lock()
				pending := len(e.wl)
				if e.cfg.BudgetS > 0 && time.Since(t0) > time.Duration(e.cfg.BudgetS)*time.Second {
					e.stopped = true
					e.budgetHit = true
				}
				e.wlMu.Unlock()
				e.wlCond.Broadcast()
				if e.cfg.Verbose {
					fmt.Fprintf(os.Stderr, "[%s] %.0fs paths=%d pending=%d outcomes=%v\n", e.cfg.Harness, time.Since(t0).Seconds(), paths, pending, e.res.Outcomes)
				}
			}
		}
	}()
	var wg sync.WaitGroup
	for w := 0; w < e.cfg.Workers; w++ {
		wg.Add(1)
		go func() {
			defer wg.Done()
			patience := e.cfg.QueryMs
			if len(e.cfg.Fallback) > 0 && patience > e.cfg.PatienceMs {
				patience = e.cfg.PatienceMs
			}
			sol, err := NewSolver(e.cfg.SolverBin, patience, e.cfg.Seed)
			if err != nil {
				panic(err)
			}
			defer sol.Close()
			m := &Machine{eng: e, sol: sol, sharedGlob: map[*ssa.Global]*Value{}, sharedInit: map[*ssa.Package]bool{}, snap: map[*ssa.Global]Value{}}
			for {
				p, ok := e.pop()
				if !ok {
					return
				}
				m.runPath(p)
				e.donePath()
			}
		}()
	}
	wg.Wait()
}

func (m *Machine) runPath(prefix []int) {
	m.prefix = prefix
	m.pos = 0
	m.trace = m.trace[:0]
	m.vars = m.vars[:0]
	m.nfresh = 0
	m.pcLog = m.pcLog[:0]
	m.restoreGlobals()
	m.steps = 0
	m.funcs = map[string]bool{}
	m.stubs = map[string]int{}
	m.schedLog = nil
	m.threads = nil
	m.cur = nil
	m.killed = false
	m.preemptLeft = m.eng.cfg.Preempt
	m.side = map[*Value]interface{}{}
	m.clock = nil
	m.ghost = map[string]Value{}
	m.obsNames = nil
	m.obsTerms = nil
	m.elemOf = map[*Value]elemRef{}
	m.timerFires = 0
	m.ignoreTimers = false
	m.pools = map[*Value][]pooled{}
	m.exitChecks = nil
	m.accessLog = nil
	m.localChecks = map[string]*CheckStat{}
	m.outcome = PathOutcome{Kind: "ok"}
	m.curHarness = m.eng.cfg.Harness

	if m.sol.cmd == nil || m.sol.cmd.ProcessState != nil {
		m.sol.Close()
		m.sol.start()
	}
	m.sol.BeginPath()
	func() {
		defer func() {
			if r := recover(); r != nil {
				// solver died etc. during main-path bookkeeping
				m.outcome = PathOutcome{"engine-error", fmt.Sprint(r)}
			}
		}()
		m.runThreads()
	}()
	func() {
		defer func() {
			if r := recover(); r != nil {
				m.sol.Close()
				m.sol.cmd = nil
			}
		}()
		m.sol.EndPath()
	}()
	if m.sol.cmd == nil {
		m.sol.start()
	}

	res := m.eng.res
	res.mu.Lock()
	res.Paths++
	res.Instrs += m.steps
	res.Outcomes[m.outcome.Kind]++
	if m.outcome.Kind != "ok" {
		key := m.outcome.Kind + ": " + m.outcome.Msg
		if len(res.OutcomeMsg) < 200 {
			if _, ok := res.OutcomeMsg[key]; !ok {
				res.OutcomeMsg[key] = fmt.Sprintf("trace=%v", m.trace)
			}
		}
	}
	for f := range m.funcs {
		res.Funcs[f] = true
	}
	for s, n := range m.stubs {
		res.Stubs[s] += n
	}
	for id, cs := range m.localChecks {
		g := res.Checks[id]
		if g == nil {
			g = &CheckStat{}
			res.Checks[id] = g
		}
		g.Reached += cs.Reached
		g.Discharged += cs.Discharged
		g.Violated += cs.Violated
		g.Unknown += cs.Unknown
	}
	if len(m.trace) > res.MaxDepth {
		res.MaxDepth = len(m.trace)
	}
	if len(res.Samples) < 6 && len(m.pcLog) > 0 {
		s := strings.Join(m.pcLog, " ∧ ")
		if len(s) > 600 {
			s = s[:600] + "…"
		}
		res.Samples = append(res.Samples, fmt.Sprintf("path %v [%s]: %s", m.trace, m.outcome.Kind, s))
	}
	res.Queries += m.sol.Queries
	res.SolverTime += m.sol.Time
	m.sol.Queries = 0
	m.sol.Time = 0
	res.mu.Unlock()
}

// ---------- decisions ----------

func (m *Machine) inReplay() bool { return m.pos < len(m.prefix) }

func (m *Machine) logPC(t *Term) {
	if len(m.pcLog) < 40 {
		s := t.String()
		if len(s) > 160 {
			s = s[:160] + "…"
		}
		m.pcLog = append(m.pcLog, s)
	}
}

func (m *Machine) assertPC(t *Term) {
	if t.IsConst() {
		return
	}
	m.sol.Assert(t)
	m.logPC(t)
}

func (m *Machine) checkSat(extra ...*Term) SatResult {
	r, _ := m.solve(extra, nil)
	return r
}

// solve asks the primary (incremental) solver with a short patience; when it does not
// answer, the same query is handed as a standalone script to all configured solvers in
// parallel (one-shot processes, full timeout) and the first definite answer is taken.
func (m *Machine) solve(extra []*Term, want []string) (SatResult, map[string]string) {
	if m.eng.budgetHit && m.inInit == 0 {
		panic(pathAbort{"budget", "wall-clock budget exhausted"})
	}
	r, model := m.sol.CheckWith(extra, want)
	if r != Unknown {
		return r, model
	}
	script := m.sol.Standalone(extra)
	bins := append([]string{}, m.eng.cfg.Fallback...)
	bins = append(bins, m.eng.cfg.SolverBin)
	type ans struct {
		bin   string
		r     SatResult
		model map[string]string
	}
	ch := make(chan ans, len(bins))
	t0 := time.Now()
	for _, b := range bins {
		go func(b string) {
			r2, model2, _ := OneShotModel(b, script, want, m.eng.cfg.QueryMs/1000+1)
			ch <- ans{b, r2, model2}
		}(b)
	}
	res, resModel := Unknown, map[string]string(nil)
	for range bins {
		a := <-ch
		m.stubs["solver-fallback:"+a.bin+":"+a.r.String()]++
		if a.r != Unknown {
			res, resModel = a.r, a.model
			break
		}
	}
	m.sol.Time += time.Since(t0)
	return res, resModel
}

// branch decides a symbolic condition, forking when both outcomes are feasible.
// Every symbolic branch is recorded in the trace (also when only one side is feasible) so
// that a replayed prefix stays aligned without repeating the feasibility queries.
func (m *Machine) branch(c *Term) bool {
	if c.sort != SBool {
		panic(pathAbort{"engine-error", "branch on non-bool"})
	}
	if c.IsConst() {
		return c.bv
	}
	if m.inInit > 0 {
		panic(pathAbort{"unsupported", "symbolic branch during package init"})
	}
	if m.inReplay() {
		d := m.prefix[m.pos]
		m.pos++
		m.trace = append(m.trace, d)
		if d == 1 {
			m.assertPC(c)
			return true
		}
		m.assertPC(tNot(c))
		return false
	}
	nc := tNot(c)
	rt := m.checkSat(c)
	if rt == Unknown {
		panic(pathAbort{"solver-unknown", "branch feasibility unknown"})
	}
	if rt == Unsat {
		// only false is feasible (pc is satisfiable by invariant)
		m.trace = append(m.trace, 0)
		m.pos++
		m.assertPC(nc)
		return false
	}
	rf := m.checkSat(nc)
	if rf == Unknown {
		panic(pathAbort{"solver-unknown", "branch feasibility unknown"})
	}
	if rf == Unsat {
		m.trace = append(m.trace, 1)
		m.pos++
		m.assertPC(c)
		return true
	}
	// both feasible: fork
	alt := append(append([]int{}, m.trace...), 0)
	m.eng.push(alt)
	m.trace = append(m.trace, 1)
	m.pos++
	m.assertPC(c)
	return true
}

// choose makes an n-way decision whose alternatives are all feasible (scheduling, select).
func (m *Machine) choose(n int, label string) int {
	if n <= 1 {
		return 0
	}
	if m.inInit > 0 {
		panic(pathAbort{"unsupported", "nondeterministic choice during package init"})
	}
	if m.inReplay() {
		d := m.prefix[m.pos]
		m.pos++
		m.trace = append(m.trace, d)
		return d
	}
	for k := n - 1; k >= 1; k-- {
		alt := append(append([]int{}, m.trace...), k)
		m.eng.push(alt)
	}
	m.trace = append(m.trace, 0)
	m.pos++
	return 0
}

// ---------- symbolic variables ----------

func (m *Machine) freshVar(name string, s Sort, lo, hi *big.Int) *Term {
	m.nfresh++
	clean := strings.Map(func(r rune) rune {
		if r >= 'a' && r <= 'z' || r >= 'A' && r <= 'Z' || r >= '0' && r <= '9' || r == '_' || r == '.' {
			return r
		}
		return '_'
	}, name)
	v := mkVar(fmt.Sprintf("%s!%d", clean, m.nfresh), s, lo, hi)
	m.sol.Declare(v)
	m.vars = append(m.vars, v.name)
	return v
}

// concretize forks over the feasible concrete values of an Int term. Small intervals are
// split directly; otherwise the feasible values are enumerated in increasing order, each
// found by a deterministic binary search with the solver (so that a replayed prefix sees the
// same candidates), up to 64 values.
func (m *Machine) concretize(t *Term, what string) int64 {
	if t.IsConst() {
		return t.Int64()
	}
	const limit = 40
	if t.lo != nil && t.hi != nil {
		span := new(big.Int).Sub(t.hi, t.lo)
		if span.IsInt64() && span.Int64() <= limit {
			lo := t.lo.Int64()
			hi := t.hi.Int64()
			for v := lo; v < hi; v++ {
				if m.branch(tEq(t, mkInt64(v))) {
					return v
				}
			}
			m.assertPC(tEq(t, mkInt64(hi)))
			return hi
		}
	}
	if t.lo == nil || t.hi == nil || !t.lo.IsInt64() || !t.hi.IsInt64() {
		panic(pathAbort{"unsupported", "concretize: unbounded term: " + what + " " + t.String()})
	}
	from := t.lo.Int64()
	hi := t.hi.Int64()
	for n := 0; n < 64; n++ {
		// smallest feasible value >= from
		if m.checkSat(tCmp(">=", t, mkInt64(from))) != Sat {
			break
		}
		lo, up := from, hi
		for lo < up {
			mid := lo + (up-lo)/2
			if m.checkSat(tCmp(">=", t, mkInt64(from)), tCmp("<=", t, mkInt64(mid))) == Sat {
				up = mid
			} else {
				lo = mid + 1
			}
		}
		if m.branch(tEq(t, mkInt64(lo))) {
			return lo
		}
		from = lo + 1
		if from > hi {
			break
		}
	}
	panic(pathAbort{"unsupported", "concretize: more than 64 feasible values: " + what})
}

// ---------- harness primitives ----------

func (m *Machine) assume(c *Term, label string) {
	if c.IsConst() {
		if !c.bv {
			panic(pathAbort{"assume", "assumption false"})
		}
		return
	}
	if !m.inReplay() {
		if m.checkSat(c) != Sat {
			panic(pathAbort{"assume", "assumption infeasible"})
		}
	}
	m.assertPC(c)
}

func (m *Machine) stat(id string) *CheckStat {
	cs := m.localChecks[id]
	if cs == nil {
		cs = &CheckStat{}
		m.localChecks[id] = cs
	}
	return cs
}

func (m *Machine) check(id string, c *Term) {
	if m.inReplay() {
		// already decided by the path this one forked from (same path condition here)
		if !c.IsConst() {
			m.assertPC(c)
		}
		return
	}
	cs := m.stat(id)
	cs.Reached++
	if c.IsConst() && c.bv {
		cs.Discharged++
		return
	}
	nc := tNot(c)
	var r SatResult
	var model map[string]string
	defer func() {
		if rec := recover(); rec != nil {
			if pa, ok := rec.(pathAbort); ok && pa.kind == "solver-unknown" {
				cs.Unknown++
			}
			panic(rec)
		}
	}()
	if c.IsConst() {
		r, model = m.solve(nil, m.vars)
	} else {
		r, model = m.solve([]*Term{nc}, m.vars)
	}
	switch r {
	case Unsat:
		cs.Discharged++
		if m.eng.cfg.KeepScripts {
			m.eng.res.mu.Lock()
			if len(m.eng.res.CrossCheck) < 400 {
				m.eng.res.CrossCheck = append(m.eng.res.CrossCheck, m.sol.Standalone([]*Term{nc}))
			}
			m.eng.res.mu.Unlock()
		}
	case Unknown:
		cs.Unknown++
	case Sat:
		cs.Violated++
		m.recordViolation(id, model, "")
		// continue under the assumption that the check holds, if possible
		if c.IsConst() {
			panic(pathAbort{"stop", "check failed on every input of this path"})
		}
		if m.checkSat(c) != Sat {
			panic(pathAbort{"stop", "check failed on every input of this path"})
		}
		m.assertPC(c)
		return
	}
	if !c.IsConst() {
		m.assertPC(c)
	}
}

func (m *Machine) recordViolation(id string, model map[string]string, note string) {
	res := m.eng.res
	res.mu.Lock()
	defer res.mu.Unlock()
	n := 0
	for _, v := range res.Violations {
		if v.Check == id {
			n++
		}
	}
	if n >= m.eng.cfg.MaxViol {
		return
	}
	res.Violations = append(res.Violations, Violation{Check: id, Harness: m.curHarness, Model: model,
		Trace: append([]int{}, m.trace...), Note: note, Sched: append([]string{}, m.schedLog...)})
}

// pathModel asks for a model of the current path condition (used for fault outcomes).
func (m *Machine) pathModel() map[string]string {
	r, model := m.solve(nil, m.vars)
	if r != Sat {
		return nil
	}
	return model
}

func (m *Machine) unsupported(format string, args ...interface{}) {
	panic(pathAbort{"unsupported", fmt.Sprintf(format, args...)})
}

// ---------- helpers ----------

func sortedKeys(m map[string]bool) []string {
	var ks []string
	for k := range m {
		ks = append(ks, k)
	}
	sort.Strings(ks)
	return ks
}

func engineErrorFromPanic(r interface{}) pathAbort {
	switch r := r.(type) {
	case pathAbort:
		return r
	case targetPanic:
		return pathAbort{"panic", "uncaught"}
	}
	st := string(debug.Stack())
	// keep the most relevant frames
	lines := strings.Split(st, "\n")
	var keep []string
	for _, l := range lines {
		if strings.Contains(l, "/verif/engine/") {
			keep = append(keep, strings.TrimSpace(l))
			if len(keep) >= 6 {
				break
			}
		}
	}
	return pathAbort{"engine-error", fmt.Sprintf("%v @ %s", r, strings.Join(keep, " | "))}
}

var _ = types.Typ

// collectWitness is called at the end of a completed path.
func (m *Machine) collectWitness() {
	res := m.eng.res
	res.mu.Lock()
	need := len(res.Witnesses) < m.eng.cfg.Witnesses
	res.mu.Unlock()
	if !need || len(m.obsNames) == 0 {
		return
	}
	defer func() { recover() }()
	want := append([]string{}, m.vars...)
	var symIdx []int
	for i, t := range m.obsTerms {
		if !t.IsConst() {
			want = append(want, m.sol.Text(t))
			symIdx = append(symIdx, i)
		}
	}
	r, model := m.solve(nil, want)
	if r != Sat {
		return
	}
	w := Witness{Model: map[string]string{}, Trace: append([]int{}, m.trace...)}
	for _, v := range m.vars {
		w.Model[v] = model[v]
	}
	for i, t := range m.obsTerms {
		var val string
		if t.IsConst() {
			val = t.iv.String()
		} else {
			val = model[m.sol.Text(t)]
		}
		w.Obs = append(w.Obs, m.obsNames[i]+"="+val)
	}
	res.mu.Lock()
	if len(res.Witnesses) < m.eng.cfg.Witnesses {
		res.Witnesses = append(res.Witnesses, w)
	}
	res.mu.Unlock()
}

type pooled struct {
	v  Value
	vc []int
}
